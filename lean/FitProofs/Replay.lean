import FitProofs.DecodeEncode
/-
  C06, file level, second half: what the replay of `File.add` over the encoder's message order
  yields.  Every slot of the container receives exactly its own messages, in order, each passed
  through `expandComponents` when its type has component fields — so the decoded File equals the
  encoded one slot by slot, up to that expansion.
-/
namespace Fit

/-- message numbers `File.add` routes to fields of `File` itself, not to the container -/
def nonSpecial (n : Nat) : Prop :=
  n ≠ mnFileId ∧ n ≠ mnFileCreator ∧ n ≠ mnTimestampCorrelation ∧ n ≠ mnFieldDescription ∧ n ≠ mnDeveloperDataId

/-- what the container's `add` arm does to a message before storing it -/
def expandMsg (P : Profile) (m : Msg) (g : Globals) : Msg × Globals :=
  if expandSet.contains m.num then expand P m g else (m, g)

def expandList (P : Profile) : Globals → List Msg → List Msg × Globals
  | g, [] => ([], g)
  | g, m :: ms => ((expandMsg P m g).1 :: (expandList P (expandMsg P m g).2 ms).1, (expandList P (expandMsg P m g).2 ms).2)

def expandSlots (P : Profile) : Globals → List (List Msg) → List (List Msg) × Globals
  | g, [] => ([], g)
  | g, s :: ss => ((expandList P g s).1 :: (expandSlots P (expandList P g s).2 ss).1, (expandSlots P (expandList P g s).2 ss).2)

/-- everything of a File but the container's contents (and the ghost log) -/
def FileSt.sameHead (a b : FileSt) : Prop :=
  a.hdr = b.hdr ∧ a.crc = b.crc ∧ a.fileId = b.fileId ∧ a.creator = b.creator ∧ a.tscorr = b.tscorr ∧
  a.fieldDescs = b.fieldDescs ∧ a.devIds = b.devIds ∧ a.cidx = b.cidx

theorem FileSt.sameHead.refl (a : FileSt) : a.sameHead a := ⟨rfl, rfl, rfl, rfl, rfl, rfl, rfl, rfl⟩

theorem FileSt.sameHead.trans {a b c : FileSt} (h1 : a.sameHead b) (h2 : b.sameHead c) : a.sameHead c := by
  obtain ⟨a1, a2, a3, a4, a5, a6, a7, a8⟩ := h1
  obtain ⟨b1, b2, b3, b4, b5, b6, b7, b8⟩ := h2
  exact ⟨a1.trans b1, a2.trans b2, a3.trans b3, a4.trans b4, a5.trans b5, a6.trans b6, a7.trans b7, a8.trans b8⟩

theorem setAt_append_cons {α} (a : List α) (x v : α) (b : List α) : setAt (a ++ x :: b) a.length v = a ++ v :: b := by
  induction a with
  | nil => rfl
  | cons y ys ih => simp [setAt, ih]

theorem getD_append_cons {α} (a : List α) (x d : α) (b : List α) : (a ++ x :: b).getD a.length d = x := by
  induction a with
  | nil => rfl
  | cons y ys ih => simp

/-- `add` of a container message: stored (expanded) in its slot -/
theorem add_slot (P : Profile) (F : FileSt) (ci : Nat) (hc : F.cidx = some ci) (m : Msg) (hns : nonSpecial m.num)
    (k : Nat) (hs : slotFor (P.containers.getD ci default) m.num = some k) (g : Globals) :
    ∃ F', F.add P m g = some (F', (expandMsg P m g).2) ∧ F'.sameHead F ∧
      F'.slots = setAt F.slots k (if ((P.containers.getD ci default).slots.getD k default).many
        then F.slots.getD k [] ++ [(expandMsg P m g).1] else [(expandMsg P m g).1]) := by
  obtain ⟨h1, h2, h3, h4, h5⟩ := hns
  unfold FileSt.add
  rw [if_neg h1, if_neg h2, if_neg h3, if_neg h4, if_neg h5]
  simp only [hc]
  unfold containerAdd
  simp only [hs]
  unfold expandMsg
  split <;> exact ⟨_, rfl, ⟨rfl, rfl, rfl, rfl, rfl, rfl, rfl, hc.symm⟩, rfl⟩

end Fit

namespace Fit

/-- a run of messages of one slice slot: appended, in order, each expanded -/
theorem addAll_many (P : Profile) (ci : Nat) (n k : Nat) (hns : nonSpecial n)
    (hs : slotFor (P.containers.getD ci default) n = some k)
    (hmany : ((P.containers.getD ci default).slots.getD k default).many = true)
    (ms : List Msg) (hnum : ∀ m ∈ ms, m.num = n)
    (F : FileSt) (g : Globals) (hc : F.cidx = some ci) (done post : List (List Msg)) (acc : List Msg)
    (hk : k = done.length) (hsl : F.slots = done ++ acc :: post) :
    ∃ F', addAll P (F, g) ms = some (F', (expandList P g ms).2) ∧ F'.sameHead F ∧
      F'.slots = done ++ (acc ++ (expandList P g ms).1) :: post := by
  induction ms generalizing F g acc with
  | nil => exact ⟨F, rfl, FileSt.sameHead.refl F, by simp [expandList, hsl]⟩
  | cons m ms ih =>
    have hmn : m.num = n := hnum m (List.mem_cons_self ..)
    obtain ⟨F1, hadd, hsame, hslots⟩ := add_slot P F ci hc m (by rw [hmn]; exact hns) k (by rw [hmn]; exact hs) g
    rw [hmany] at hslots
    simp only [↓reduceIte] at hslots
    rw [hsl, hk, setAt_append_cons, getD_append_cons] at hslots
    have hc1 : F1.cidx = some ci := by rw [hsame.2.2.2.2.2.2.2]; exact hc
    obtain ⟨F2, h2, hs2, hsl2⟩ := ih (fun x hx => hnum x (List.mem_cons_of_mem _ hx)) F1 (expandMsg P m g).2 hc1
      (acc ++ [(expandMsg P m g).1]) hslots
    refine ⟨F2, ?_, hs2.trans hsame, ?_⟩
    · simp only [addAll, hadd, expandList]
      exact h2
    · rw [hsl2]
      simp [expandList]

/-- a pointer slot: its one message is stored, expanded -/
theorem addAll_single (P : Profile) (ci : Nat) (n k : Nat) (hns : nonSpecial n)
    (hs : slotFor (P.containers.getD ci default) n = some k)
    (hmany : ((P.containers.getD ci default).slots.getD k default).many = false)
    (ms : List Msg) (hnum : ∀ m ∈ ms, m.num = n)
    (F : FileSt) (g : Globals) (hc : F.cidx = some ci) (done post : List (List Msg))
    (hk : k = done.length) (hsl : F.slots = done ++ [] :: post) :
    ∃ F', addAll P (F, g) (ms.take 1) = some (F', (expandList P g (ms.take 1)).2) ∧ F'.sameHead F ∧
      F'.slots = done ++ (expandList P g (ms.take 1)).1 :: post := by
  cases ms with
  | nil => exact ⟨F, rfl, FileSt.sameHead.refl F, by simp [expandList, hsl]⟩
  | cons m rest =>
    have hmn : m.num = n := hnum m (List.mem_cons_self ..)
    obtain ⟨F1, hadd, hsame, hslots⟩ := add_slot P F ci hc m (by rw [hmn]; exact hns) k (by rw [hmn]; exact hs) g
    rw [hmany] at hslots
    simp only [Bool.false_eq_true, ↓reduceIte] at hslots
    rw [hsl, hk, setAt_append_cons] at hslots
    refine ⟨F1, ?_, hsame, ?_⟩
    · simp only [List.take_succ_cons, List.take_zero, addAll, hadd, expandList]
    · rw [hslots]
      simp [expandList]

/-- the messages a slot contributes to the encoding -/
def slotMsgs (z : CSlot × List Msg) : List Msg := if z.1.many then z.2 else z.2.take 1

theorem findIdx_append_of_not {α} (p : α → Bool) (a : List α) (x : α) (b : List α) (ha : ∀ y ∈ a, p y = false)
    (hx : p x = true) : (a ++ x :: b).findIdx p = a.length := by
  induction a with
  | nil => simp [List.findIdx_cons, hx]
  | cons y ys ih =>
    have hy : p y = false := ha y (List.mem_cons_self ..)
    simp only [List.cons_append, List.findIdx_cons, hy, cond_false, List.length_cons]
    rw [ih (fun z hz => ha z (List.mem_cons_of_mem _ hz))]

theorem slotFor_at (c : Container) (pre : List CSlot) (z : CSlot) (post : List CSlot) (hc : c.slots = pre ++ z :: post)
    (hd : allDistinct (c.slots.map (·.msg)) = true) : slotFor c z.msg = some pre.length := by
  have hne : ∀ y ∈ pre, (y.msg == z.msg) = false := by
    intro y hy
    rw [hc] at hd
    clear hc
    induction pre with
    | nil => cases hy
    | cons w ws ih =>
      simp only [List.cons_append, List.map_cons, allDistinct, Bool.and_eq_true, Bool.not_eq_true'] at hd
      cases hy with
      | head =>
        have : ¬ (y.msg = z.msg) := by
          intro e
          have hm : ((ws ++ z :: post).map (·.msg)).contains y.msg = true := by
            simp only [List.contains_eq_mem, List.mem_map, List.mem_append, List.mem_cons, decide_eq_true_eq]
            exact ⟨z, Or.inr (Or.inl rfl), e.symm⟩
          rw [hm] at hd
          cases hd.1
        simpa using this
      | tail _ hy' => exact ih hd.2 hy'
  unfold slotFor
  have hf : c.slots.findIdx (·.msg == z.msg) = pre.length := by
    rw [hc]
    exact findIdx_append_of_not _ pre z post hne (by simp)
  simp only [hf]
  rw [hc]
  simp

end Fit

namespace Fit

/-- **the container's slots, replayed**: from a state where the slots still to come are empty,
    every slot receives its own messages (expanded), left to right -/
theorem addAll_slots (P : Profile) (ci : Nat)
    (hd : allDistinct ((P.containers.getD ci default).slots.map (·.msg)) = true)
    (zs : List (CSlot × List Msg)) (pre : List CSlot)
    (hcs : (P.containers.getD ci default).slots = pre ++ zs.map (·.1))
    (hz : ∀ z ∈ zs, nonSpecial z.1.msg ∧ ∀ m ∈ z.2, m.num = z.1.msg)
    (F : FileSt) (g : Globals) (hc : F.cidx = some ci) (done : List (List Msg)) (hlen : done.length = pre.length)
    (hsl : F.slots = done ++ List.replicate zs.length []) :
    ∃ F', addAll P (F, g) (zs.flatMap slotMsgs) = some (F', (expandSlots P g (zs.map slotMsgs)).2) ∧
      F'.sameHead F ∧ F'.slots = done ++ (expandSlots P g (zs.map slotMsgs)).1 := by
  induction zs generalizing pre done F g with
  | nil => exact ⟨F, rfl, FileSt.sameHead.refl F, by simpa [expandSlots] using hsl⟩
  | cons z zs ih =>
    simp only [List.map_cons] at hcs
    have hslot := slotFor_at _ pre z.1 (zs.map (·.1)) hcs hd
    have hmany : ((P.containers.getD ci default).slots.getD pre.length default).many = z.1.many := by
      rw [hcs, getD_append_cons]
    obtain ⟨hns, hnum⟩ := hz z (List.mem_cons_self ..)
    simp only [List.length_cons, List.replicate_succ] at hsl
    have step : ∃ F1, addAll P (F, g) (slotMsgs z) = some (F1, (expandList P g (slotMsgs z)).2) ∧ F1.sameHead F ∧
        F1.slots = done ++ (expandList P g (slotMsgs z)).1 :: List.replicate zs.length [] := by
      unfold slotMsgs
      cases hm : z.1.many with
      | true =>
        simp only [↓reduceIte]
        obtain ⟨F1, h1, h2, h3⟩ := addAll_many P ci z.1.msg pre.length hns hslot (by rw [hmany]; exact hm) z.2 hnum F g hc
          done (List.replicate zs.length []) [] hlen.symm hsl
        exact ⟨F1, h1, h2, by simpa using h3⟩
      | false =>
        simp only [Bool.false_eq_true, ↓reduceIte]
        exact addAll_single P ci z.1.msg pre.length hns hslot (by rw [hmany]; exact hm) z.2 hnum F g hc
          done (List.replicate zs.length []) hlen.symm hsl
    obtain ⟨F1, h1, hs1, hsl1⟩ := step
    have hc1 : F1.cidx = some ci := by rw [hs1.2.2.2.2.2.2.2]; exact hc
    obtain ⟨F2, h2, hs2, hsl2⟩ := ih (pre ++ [z.1]) (by rw [hcs]; simp)
      (fun x hx => hz x (List.mem_cons_of_mem _ hx)) F1 (expandList P g (slotMsgs z)).2 hc1
      (done ++ [(expandList P g (slotMsgs z)).1]) (by simp [hlen]) (by rw [hsl1]; simp)
    refine ⟨F2, ?_, hs2.trans hs1, ?_⟩
    · simp only [List.flatMap_cons, List.map_cons, expandSlots]
      rw [addAll_append, h1]
      exact h2
    · rw [hsl2]
      simp [expandSlots]

end Fit

namespace Fit

theorem add_creator (P : Profile) (F : FileSt) (m : Msg) (h : m.num = mnFileCreator) (g : Globals) :
    F.add P m g = some ({ F with creator := some m }, g) := by
  unfold FileSt.add
  rw [if_neg (by rw [h]; decide), if_pos h]

theorem add_tscorr (P : Profile) (F : FileSt) (m : Msg) (h : m.num = mnTimestampCorrelation) (g : Globals) :
    F.add P m g = some ({ F with tscorr := some m }, g) := by
  unfold FileSt.add
  rw [if_neg (by rw [h]; decide), if_neg (by rw [h]; decide), if_pos h]

/-- the shape of a File as the typed API builds it: file_creator / timestamp_correlation carry their
    own message numbers, the container has one entry per struct field, each holding messages of the
    field's element type -/
structure FileShape (c : Container) (f : FileSt) : Prop where
  creatorNum : ∀ m, f.creator = some m → m.num = mnFileCreator
  tscorrNum : ∀ m, f.tscorr = some m → m.num = mnTimestampCorrelation
  len : f.slots.length = c.slots.length
  nums : ∀ z ∈ c.slots.zip f.slots, ∀ m ∈ z.2, m.num = z.1.msg

/-- what must hold of a container description: distinct element types, none of them one of the
    message types `File` keeps itself (checked on the regenerated profile by evaluation) -/
def containerOK (c : Container) : Bool :=
  allDistinct (c.slots.map (·.msg)) &&
  c.slots.all fun s => decide (s.msg ≠ mnFileId ∧ s.msg ≠ mnFileCreator ∧ s.msg ≠ mnTimestampCorrelation ∧
    s.msg ≠ mnFieldDescription ∧ s.msg ≠ mnDeveloperDataId)

theorem encodedMsgs_eq (c : Container) (f : FileSt) :
    encodedMsgs c f = f.creator.toList ++ (f.tscorr.toList ++ (c.slots.zip f.slots).flatMap slotMsgs) := by
  unfold encodedMsgs
  congr 2

/-- **the replay, computed**: from the freshly attached container, `add` over the encoder's message
    order rebuilds file_creator, timestamp_correlation and every slot (messages expanded, in order) -/
theorem replay_file (P : Profile) (ci : Nat) (hok : containerOK (P.containers.getD ci default) = true)
    (f : FileSt) (hsh : FileShape (P.containers.getD ci default) f) (H : Header) (g : Globals) :
    ∃ F, addAll P ({ hdr := H, fileId := f.fileId, cidx := some ci,
                     slots := List.replicate (P.containers.getD ci default).slots.length [] }, g)
          (encodedMsgs (P.containers.getD ci default) f) =
        some (F, (expandSlots P g (((P.containers.getD ci default).slots.zip f.slots).map slotMsgs)).2) ∧
      F.hdr = H ∧ F.fileId = f.fileId ∧ F.creator = f.creator ∧ F.tscorr = f.tscorr ∧ F.fieldDescs = [] ∧ F.devIds = [] ∧
      F.cidx = some ci ∧
      F.slots = (expandSlots P g (((P.containers.getD ci default).slots.zip f.slots).map slotMsgs)).1 := by
  unfold containerOK at hok
  simp only [Bool.and_eq_true, List.all_eq_true, decide_eq_true_eq] at hok
  obtain ⟨hd, hns⟩ := hok
  rw [encodedMsgs_eq]
  -- file_creator
  obtain ⟨F1, h1, e1⟩ : ∃ F1 : FileSt, addAll P ({ hdr := H, fileId := f.fileId, cidx := some ci, slots := List.replicate (P.containers.getD ci default).slots.length [] }, g) f.creator.toList = some (F1, g) ∧
      F1 = { hdr := H, fileId := f.fileId, cidx := some ci, slots := List.replicate (P.containers.getD ci default).slots.length [], creator := f.creator } := by
    cases hc : f.creator with
    | none => exact ⟨_, rfl, rfl⟩
    | some m =>
      refine ⟨_, ?_, rfl⟩
      simp only [Option.toList, addAll, add_creator P _ m (hsh.creatorNum m hc) g]
  -- timestamp_correlation
  obtain ⟨F2, h2, e2⟩ : ∃ F2 : FileSt, addAll P (F1, g) f.tscorr.toList = some (F2, g) ∧
      F2 = { F1 with tscorr := f.tscorr } := by
    cases hc : f.tscorr with
    | none => subst e1; exact ⟨_, rfl, rfl⟩
    | some m =>
      refine ⟨_, ?_, rfl⟩
      simp only [Option.toList, addAll, add_tscorr P _ m (hsh.tscorrNum m hc) g]
  -- the container
  have hmap : ((P.containers.getD ci default).slots.zip f.slots).map (·.1) = (P.containers.getD ci default).slots :=
    List.map_fst_zip (by rw [hsh.len]; exact Nat.le_refl _)
  have hzl : ((P.containers.getD ci default).slots.zip f.slots).length = (P.containers.getD ci default).slots.length := by
    rw [List.length_zip, hsh.len, Nat.min_self]
  obtain ⟨F3, h3, hs3, hsl3⟩ := addAll_slots P ci hd ((P.containers.getD ci default).slots.zip f.slots) []
    (by rw [hmap]; rfl)
    (fun z hz => ⟨hns z.1 (List.of_mem_zip hz).1, hsh.nums z hz⟩) F2 g (by rw [e2, e1]) [] rfl
    (by rw [e2, e1, hzl]; rfl)
  refine ⟨F3, ?_, ?_⟩
  · rw [addAll_append, h1]
    simp only
    rw [addAll_append, h2]
    exact h3
  · obtain ⟨a1, a2, a3, a4, a5, a6, a7, a8⟩ := hs3
    rw [e2, e1] at a1 a3 a4 a5 a6 a7 a8
    exact ⟨a1, a3, a4, a5, a6, a7, a8, by simpa using hsl3⟩

end Fit

namespace Fit

theorem expandList_id (P : Profile) (g : Globals) (ms : List Msg) (h : ∀ m ∈ ms, expandSet.contains m.num = false) :
    expandList P g ms = (ms, g) := by
  induction ms with
  | nil => rfl
  | cons m ms ih =>
    have hm : expandMsg P m g = (m, g) := by
      unfold expandMsg
      rw [h m (List.mem_cons_self ..)]
      rfl
    simp only [expandList, hm, ih (fun x hx => h x (List.mem_cons_of_mem _ hx))]

theorem expandSlots_id (P : Profile) (g : Globals) (ss : List (List Msg))
    (h : ∀ ms ∈ ss, ∀ m ∈ ms, expandSet.contains m.num = false) : expandSlots P g ss = (ss, g) := by
  induction ss with
  | nil => rfl
  | cons s ss ih =>
    simp only [expandSlots, expandList_id P g s (h s (List.mem_cons_self ..)),
      ih (fun x hx => h x (List.mem_cons_of_mem _ hx))]

theorem containerOK_getD (P : Profile) (h : ∀ c ∈ P.containers, containerOK c = true) (i : Nat) :
    containerOK (P.containers.getD i default) = true := by
  by_cases hi : i < P.containers.length
  · have : P.containers.getD i default = P.containers[i] := by
      simp [List.getD_eq_getElem?_getD, List.getElem?_eq_getElem hi]
    rw [this]
    exact h _ (List.getElem_mem hi)
  · have : P.containers.getD i default = default := by
      simp [List.getD_eq_getElem?_getD, List.getElem?_eq_none (by omega : P.containers.length ≤ i)]
    rw [this]
    rfl

/-- padding keeps the typed shape of a File -/
theorem FileShape.wire {c : Container} {f : FileSt} (P : Profile) (h : FileShape c f) : FileShape c (wireFile P c f) := by
  refine ⟨?_, ?_, ?_, ?_⟩
  · intro m hm
    simp only [wireFile, Option.map_eq_some_iff] at hm
    obtain ⟨m0, hm0, rfl⟩ := hm
    rw [wire1_num]; exact h.creatorNum m0 hm0
  · intro m hm
    simp only [wireFile, Option.map_eq_some_iff] at hm
    obtain ⟨m0, hm0, rfl⟩ := hm
    rw [wire1_num]; exact h.tscorrNum m0 hm0
  · simp only [wireFile, List.length_map, List.length_zip, h.len, Nat.min_self]
  · intro z hz m hm
    simp only [wireFile] at hz
    rw [zip_map_zip] at hz
    simp only [List.mem_map] at hz
    obtain ⟨z0, hz0, rfl⟩ := hz
    exact wireSlot_nums P z0.1.many z0.2 z0.1.msg (h.nums z0 hz0) m hm

/-- **`Decode (Encode f)` computed.** For every File of the typed API's shape in the round-trip
    domain: decoding what `Encode` wrote succeeds and returns a File with the same file_id,
    file_creator and timestamp_correlation, the same container, and in every slot the File's own
    messages, in order — each passed through `expandComponents` where its type has component
    fields, with the package-level accumulators threaded in file order. -/
theorem decode_encode_content (P : Profile) (hwf : ProfileWF P = true) (hcont : ∀ c ∈ P.containers, containerOK c = true)
    (arch : Endian) (f f' : FileSt) (bs : Bytes)
    (h : encode P arch f = .ok bs f') (hdom : FileRT P arch f) (hsmall : bs.length < 4294967296)
    (hsh : ∀ i, f.cidx = some i → FileShape (P.containers.getD i default) f)
    (o : Opts) (g : Globals) (tail : Bytes) (stop : Stop) :
    ∃ (i : Nat) (F' : FileSt), f.cidx = some i ∧
      (decodeSpec P o .full g (bs ++ tail) stop).1.success ∧
      (decodeSpec P o .full g (bs ++ tail) stop).1.st.file = some F' ∧
      F'.fileId = wire1 P f.fileId ∧ F'.creator = f.creator.map (wire1 P) ∧ F'.tscorr = f.tscorr.map (wire1 P) ∧
      F'.cidx = f.cidx ∧ F'.fieldDescs = [] ∧ F'.devIds = [] ∧
      F'.slots = (expandSlots P g (((P.containers.getD i default).slots.zip
        (wireFile P (P.containers.getD i default) f).slots).map slotMsgs)).1 ∧
      (decodeSpec P o .full g (bs ++ tail) stop).1.st.glob =
        (expandSlots P g (((P.containers.getD i default).slots.zip
          (wireFile P (P.containers.getD i default) f).slots).map slotMsgs)).2 ∧
      ((F'.hdr.size = headerSizeNoCRC ∨ F'.hdr.size = headerSizeCRC) ∧ F'.hdr.dtype = fitTag ∧ F'.hdr.proto = f.hdr.proto) := by
  obtain ⟨i, H, C, F, G, F', hci, hadd, hsucc, hglob, hfile, hsame, hH⟩ :=
    decode_encode_file P hwf arch f f' bs h hdom hsmall o g tail stop
  obtain ⟨F2, hadd2, r1, r2, r3, r4, r5, r6, r7, r8⟩ := replay_file P i (containerOK_getD P hcont i) (wireFile P (P.containers.getD i default) f) ((hsh i hci).wire P) H g
  rw [hadd] at hadd2
  injection hadd2 with hadd2
  injection hadd2 with e1 e2
  subst e1
  obtain ⟨s1, s2, s3, s4, s5, s6, s7, s8, s9⟩ := hsame
  simp only at s1 s2 s3 s4 s5 s6 s7 s8 s9
  have hh : F'.hdr = H := s1.trans r1
  refine ⟨i, F', hci, hsucc, hfile, s3.trans r2, s4.trans r3, s5.trans r4, ?_, s6.trans r5, s7.trans r6, s9.trans r8, ?_, ?_⟩
  · rw [s8, r7, hci]
  · rw [hglob, e2]
  · rw [hh]; exact hH

/-- **`Decode (Encode f) = f`** on Files whose messages have no component fields (every type but
    session, lap, record, event, segment_lap) and whose pointer fields hold at most one message:
    same file_id, file_creator, timestamp_correlation and, slot by slot, the same messages; the
    package-level accumulators are untouched. -/
theorem decode_encode_identity (P : Profile) (hwf : ProfileWF P = true) (hcont : ∀ c ∈ P.containers, containerOK c = true)
    (arch : Endian) (f f' : FileSt) (bs : Bytes)
    (h : encode P arch f = .ok bs f') (hdom : FileRT P arch f) (hsmall : bs.length < 4294967296)
    (hsh : ∀ i, f.cidx = some i → FileShape (P.containers.getD i default) f)
    (hone : ∀ i, f.cidx = some i → ∀ z ∈ (P.containers.getD i default).slots.zip f.slots, z.1.many = false → z.2.length ≤ 1)
    (hnx : ∀ ms ∈ f.slots, ∀ m ∈ ms, expandSet.contains m.num = false)
    (o : Opts) (g : Globals) (tail : Bytes) (stop : Stop) :
    ∃ F' : FileSt,
      (decodeSpec P o .full g (bs ++ tail) stop).1.success ∧
      (decodeSpec P o .full g (bs ++ tail) stop).1.st.file = some F' ∧
      F'.fileId = wire1 P f.fileId ∧ F'.creator = f.creator.map (wire1 P) ∧ F'.tscorr = f.tscorr.map (wire1 P) ∧
      F'.cidx = f.cidx ∧ F'.fieldDescs = [] ∧ F'.devIds = [] ∧
      (∀ i, f.cidx = some i → F'.slots = (wireFile P (P.containers.getD i default) f).slots) ∧
      (decodeSpec P o .full g (bs ++ tail) stop).1.st.glob = g ∧
      ((F'.hdr.size = headerSizeNoCRC ∨ F'.hdr.size = headerSizeCRC) ∧ F'.hdr.dtype = fitTag ∧ F'.hdr.proto = f.hdr.proto) := by
  obtain ⟨i, F', hci, hsucc, hfile, r1, r2, r3, r4, r5, r6, r7, r8, rH⟩ :=
    decode_encode_content P hwf hcont arch f f' bs h hdom hsmall hsh o g tail stop
  have hshw := (hsh i hci).wire P
  have hslots : (wireFile P (P.containers.getD i default) f).slots =
      ((P.containers.getD i default).slots.zip f.slots).map fun z => wireSlot P z.1.many z.2 := rfl
  have hmap : ((P.containers.getD i default).slots.zip (wireFile P (P.containers.getD i default) f).slots).map slotMsgs =
      (wireFile P (P.containers.getD i default) f).slots := by
    have h1 : ((P.containers.getD i default).slots.zip (wireFile P (P.containers.getD i default) f).slots).map slotMsgs =
        ((P.containers.getD i default).slots.zip (wireFile P (P.containers.getD i default) f).slots).map (·.2) := by
      apply List.map_congr_left
      intro z hz
      unfold slotMsgs
      cases hm : z.1.many with
      | true => rfl
      | false =>
        simp only [Bool.false_eq_true, ↓reduceIte]
        apply List.take_of_length_le
        rw [hslots, zip_map_zip] at hz
        simp only [List.mem_map] at hz
        obtain ⟨z0, hz0, rfl⟩ := hz
        simp only at hm ⊢
        rw [wireSlot_length]
        exact hone i hci z0 hz0 hm
    rw [h1]
    exact List.map_snd_zip (by rw [hshw.len]; exact Nat.le_refl _)
  have hnxw : ∀ ms ∈ (wireFile P (P.containers.getD i default) f).slots, ∀ m ∈ ms, expandSet.contains m.num = false := by
    intro ms hms m hm
    rw [hslots] at hms
    simp only [List.mem_map] at hms
    obtain ⟨z0, hz0, rfl⟩ := hms
    have hz2 : z0.2 ∈ f.slots := (List.of_mem_zip hz0).2
    have hn := wireSlot_nums P z0.1.many z0.2 z0.1.msg ((hsh i hci).nums z0 hz0) m hm
    cases hz : z0.2 with
    | nil => rw [hz] at hm; simp [wireSlot] at hm
    | cons m1 rest =>
      have hm1 : m1 ∈ z0.2 := by rw [hz]; exact List.mem_cons_self ..
      have := hnx z0.2 hz2 m1 hm1
      rw [(hsh i hci).nums z0 hz0 m1 hm1] at this
      rw [hn]; exact this
  rw [hmap, expandSlots_id P g _ hnxw] at r7 r8
  refine ⟨F', hsucc, hfile, r1, r2, r3, r4, r5, r6, ?_, r8, rH⟩
  intro j hj
  rw [hci] at hj
  injection hj with hj
  subst hj
  exact r7

end Fit
