import FitProofs.ExpandRecord
import FitProofs.Replay
import FitProofs.MsgRoundtrip
/-!
  C18, last sentence: the accumulated distance of the records of a file is the running sum of the
  rollover-corrected deltas of the raw 12-bit values (as the generated code extracts them), starting
  from the accumulator the decoder found.  One step (`expandRecord_dist`), a whole list of records
  (`expandList_dist`), and the closed form of the run (`runDist_closed`).
-/
namespace Fit

/-- the raw distance value the generated code extracts from compressed_speed_distance (the second
    shift is evaluated in uint8: finding D10), `none` if the field is absent or all 0xFF -/
def csdRaw (pm : PMsg) (m : Msg) : Option Nat :=
  match pm.idx "CompressedSpeedDistance" with
  | some ci =>
    match m.vals[ci]? with
    | some (.us (some [b0, b1, b2])) =>
      if b0 ≠ 0xFF ∨ b1 ≠ 0xFF ∨ b2 ≠ 0xFF then some ((b1 >>> 4) ||| ((b2 <<< 4) % 256)) else none
    | _ => none
  | none => none

/-- the distance accumulator in force: the package-level one if it exists, else a fresh 12-bit one -/
def effDist (g : Globals) : Accu := if g.dist.present then g.dist else Accu.new 12

theorem accumulate_present (a : Accu) (v : Nat) : (Accu.accumulate a v).1.present = a.present := by
  show ({ a with value := _, last := v } : Accu).present = a.present
  rfl
theorem accumulate_mask (a : Accu) (v : Nat) : (Accu.accumulate a v).1.mask = a.mask := by
  show ({ a with value := _, last := v } : Accu).mask = a.mask
  rfl
theorem accumulate_last (a : Accu) (v : Nat) : (Accu.accumulate a v).1.last = v := by
  show ({ a with value := _, last := v } : Accu).last = v
  rfl

theorem effDist_present (g : Globals) : (effDist g).present = true := by
  unfold effDist; split
  · assumption
  · rfl

theorem expandCycles_dist (pm : PMsg) (m : Msg) (g : Globals) : (expandCycles pm m g).2.dist = g.dist := by
  unfold expandCycles
  split
  · split
    · split <;> rfl
    · rfl
  · rfl

theorem expandPower_dist (pm : PMsg) (m : Msg) (g : Globals) : (expandPower pm m g).2.dist = g.dist := by
  unfold expandPower
  split
  · split
    · split <;> rfl
    · rfl
  · rfl

theorem expandPower_vals (pm : PMsg) (m : Msg) (g : Globals) (j : Nat)
    (ht : ∀ ai, pm.idx "AccumulatedPower" = some ai → ai ≠ j) : (expandPower pm m g).1.vals[j]? = m.vals[j]? := by
  unfold expandPower
  split
  · rename_i ci ai hc hai
    split
    · split
      · exact setU_vals _ _ _ _ (ht ai hai)
      · rfl
    · rfl
  · rfl

theorem csdRaw_eq (pm : PMsg) (m : Msg) (ci : Nat) (hc : pm.idx "CompressedSpeedDistance" = some ci) :
    (∀ b0 b1 b2, m.vals[ci]? = some (.us (some [b0, b1, b2])) →
      csdRaw pm m = if b0 ≠ 0xFF ∨ b1 ≠ 0xFF ∨ b2 ≠ 0xFF then some ((b1 >>> 4) ||| ((b2 <<< 4) % 256)) else none) ∧
    ((∀ b0 b1 b2, m.vals[ci]? = some (.us (some [b0, b1, b2])) → False) → csdRaw pm m = none) := by
  unfold csdRaw
  rw [hc]
  simp only
  constructor
  · intro b0 b1 b2 hv; rw [hv]
  · intro hno
    split
    · rename_i hv; exact (hno _ _ _ hv).elim
    · rfl

theorem expandCsd_eq (pm : PMsg) (m : Msg) (g : Globals) (ci si di : Nat)
    (hc : pm.idx "CompressedSpeedDistance" = some ci) (hs : pm.idx "Speed" = some si) (hd : pm.idx "Distance" = some di) :
    (∀ b0 b1 b2, m.vals[ci]? = some (.us (some [b0, b1, b2])) →
      expandCsd pm m g = if b0 ≠ 0xFF ∨ b1 ≠ 0xFF ∨ b2 ≠ 0xFF then
        ((m.setU si (b0 ||| ((b1 &&& 0x0F) <<< 8))).setU di ((effDist g).accumulate ((b1 >>> 4) ||| ((b2 <<< 4) % 256))).2,
          { g with dist := ((effDist g).accumulate ((b1 >>> 4) ||| ((b2 <<< 4) % 256))).1 })
        else (m, g)) ∧
    ((∀ b0 b1 b2, m.vals[ci]? = some (.us (some [b0, b1, b2])) → False) → expandCsd pm m g = (m, g)) := by
  unfold expandCsd effDist
  rw [hc, hs, hd]
  simp only
  constructor
  · intro b0 b1 b2 hv; rw [hv]
  · intro hno
    split
    · rename_i hv; exact (hno _ _ _ hv).elim
    · rfl

/-- what compressed_speed_distance does to the accumulator and to the distance field of one record -/
theorem expandCsd_dist (pm : PMsg) (m : Msg) (g : Globals) (ci si di : Nat)
    (hc : pm.idx "CompressedSpeedDistance" = some ci) (hs : pm.idx "Speed" = some si) (hd : pm.idx "Distance" = some di)
    (hlen : di < m.vals.length) :
    (∀ d, csdRaw pm m = some d → (expandCsd pm m g).2.dist = ((effDist g).accumulate d).1 ∧
        (expandCsd pm m g).1.vals[di]? = some (.u ((effDist g).accumulate d).2)) ∧
    (csdRaw pm m = none → (expandCsd pm m g).2.dist = g.dist ∧ (expandCsd pm m g).1.vals[di]? = m.vals[di]?) := by
  obtain ⟨r1, r2⟩ := csdRaw_eq pm m ci hc
  obtain ⟨e1, e2⟩ := expandCsd_eq pm m g ci si di hc hs hd
  by_cases hex : ∃ b0 b1 b2, m.vals[ci]? = some (.us (some [b0, b1, b2]))
  · obtain ⟨b0, b1, b2, hv⟩ := hex
    rw [r1 b0 b1 b2 hv, e1 b0 b1 b2 hv]
    by_cases hne : b0 ≠ 0xFF ∨ b1 ≠ 0xFF ∨ b2 ≠ 0xFF
    · rw [if_pos hne, if_pos hne]
      refine ⟨?_, fun h => (by cases h)⟩
      intro d hd'
      injection hd' with hd'
      subst hd'
      refine ⟨rfl, ?_⟩
      show (setAt (setAt m.vals si _) di _)[di]? = _
      apply getElem?_setAt_same
      rw [length_setAt']; exact hlen
    · rw [if_neg hne, if_neg hne]
      exact ⟨fun d h => (by cases h), fun _ => ⟨rfl, rfl⟩⟩
  · have hno : ∀ b0 b1 b2, m.vals[ci]? = some (.us (some [b0, b1, b2])) → False := fun b0 b1 b2 h => hex ⟨b0, b1, b2, h⟩
    rw [r2 hno, e2 hno]
    exact ⟨fun d h => (by cases h), fun _ => ⟨rfl, rfl⟩⟩

theorem csdRaw_congr (pm : PMsg) (m m' : Msg) (h : ∀ ci, pm.idx "CompressedSpeedDistance" = some ci → m'.vals[ci]? = m.vals[ci]?) :
    csdRaw pm m' = csdRaw pm m := by
  unfold csdRaw
  cases hc : pm.idx "CompressedSpeedDistance" with
  | none => rfl
  | some ci => simp only; rw [h ci hc]

/-- the names of the record message the distance run needs -/
structure DistNames (pm : PMsg) (ci si di : Nat) : Prop where
  csd : pm.idx "CompressedSpeedDistance" = some ci
  speed : pm.idx "Speed" = some si
  dist : pm.idx "Distance" = some di

/-- **one record**: what `expandRecord` does to the distance accumulator and the distance field -/
theorem expandRecord_dist (pm : PMsg) (m : Msg) (g : Globals) (ci si di : Nat) (hn : DistNames pm ci si di)
    (hlen : di < m.vals.length) :
    (∀ d, csdRaw pm m = some d → (expandRecord pm m g).2.dist = ((effDist g).accumulate d).1 ∧
        (expandRecord pm m g).1.vals[di]? = some (.u ((effDist g).accumulate d).2)) ∧
    (csdRaw pm m = none → (expandRecord pm m g).2.dist = g.dist ∧ (expandRecord pm m g).1.vals[di]? = m.vals[di]?) := by
  unfold expandRecord
  simp only
  -- the two 16-bit copies touch neither the source bytes nor the distance field
  have hv2 : ∀ j, (∀ x, pm.idx "EnhancedAltitude" = some x → x ≠ j) → (∀ x, pm.idx "EnhancedSpeed" = some x → x ≠ j) →
      (copyIfValid pm (copyIfValid pm m "Altitude" "EnhancedAltitude" 0xFFFF) "Speed" "EnhancedSpeed" 0xFFFF).vals[j]? = m.vals[j]? := by
    intro j h1 h2
    rw [copyIfValid_vals pm _ "Speed" "EnhancedSpeed" 0xFFFF j h2, copyIfValid_vals pm m "Altitude" "EnhancedAltitude" 0xFFFF j h1]
  have hci := hv2 ci (fun x hx => idx_ne pm _ _ x ci hx hn.csd (by decide)) (fun x hx => idx_ne pm _ _ x ci hx hn.csd (by decide))
  have hdi := hv2 di (fun x hx => idx_ne pm _ _ x di hx hn.dist (by decide)) (fun x hx => idx_ne pm _ _ x di hx hn.dist (by decide))
  generalize (copyIfValid pm (copyIfValid pm m "Altitude" "EnhancedAltitude" 0xFFFF) "Speed" "EnhancedSpeed" 0xFFFF) = m2 at hci hdi ⊢
  have hraw : csdRaw pm m2 = csdRaw pm m := csdRaw_congr pm m m2 (fun c hc => by rw [hn.csd] at hc; cases hc; exact hci)
  have hlen2 : di < m2.vals.length := by
    have : m2.vals[di]? = m.vals[di]? := hdi
    rw [List.getElem?_eq_getElem hlen] at this
    exact (List.getElem?_eq_some_iff.mp this).1
  obtain ⟨c1, c2⟩ := expandCsd_dist pm m2 g ci si di hn.csd hn.speed hn.dist hlen2
  -- cycles and power touch neither the distance accumulator nor the distance field
  have hrest : ∀ (r : Msg × Globals),
      (expandPower pm (expandCycles pm r.1 r.2).1 (expandCycles pm r.1 r.2).2).2.dist = r.2.dist ∧
      (expandPower pm (expandCycles pm r.1 r.2).1 (expandCycles pm r.1 r.2).2).1.vals[di]? = r.1.vals[di]? := by
    intro r
    refine ⟨by rw [expandPower_dist, expandCycles_dist], ?_⟩
    rw [expandPower_vals pm _ _ di (fun x hx => idx_ne pm _ _ x di hx hn.dist (by decide)),
      expandCycles_vals pm _ _ di (fun x hx => idx_ne pm _ _ x di hx hn.dist (by decide))]
  obtain ⟨k1, k2⟩ := hrest (expandCsd pm m2 g)
  rw [k1, k2, ← hraw]
  refine ⟨c1, ?_⟩
  intro h
  obtain ⟨d1, d2⟩ := c2 h
  exact ⟨d1, d2.trans hdi⟩

/-- how the distance field of the records of a file relates to the accumulator the decoder found:
    `a` is the accumulator in force, `ms` the records as decoded, `ms'` what the File holds -/
def DistRun (pm : PMsg) (di : Nat) : Accu → List Msg → List Msg → Prop
  | _, [], [] => True
  | a, m :: ms, m' :: ms' =>
    match csdRaw pm m with
    | some d => m'.vals[di]? = some (.u (a.accumulate d).2) ∧ DistRun pm di (a.accumulate d).1 ms ms'
    | none => m'.vals[di]? = m.vals[di]? ∧ DistRun pm di a ms ms'
  | _, _, _ => False

theorem expandMsg_record (P : Profile) (pm : PMsg) (hpm : P.msg? mnRecord = some pm) (m : Msg) (g : Globals)
    (hm : m.num = mnRecord) : expandMsg P m g = expandRecord pm m g := by
  unfold expandMsg
  have : expandSet.contains m.num = true := by rw [hm]; decide
  rw [this]
  simp only [↓reduceIte]
  unfold expand
  rw [hm, hpm]
  simp

/-- **the records of a file**: through `File.add`, record after record, the distance fields are the
    run of the accumulator over the raw values, starting from the accumulator the decoder found;
    records without compressed_speed_distance keep their own distance and leave the accumulator alone -/
theorem expandList_dist (P : Profile) (pm : PMsg) (hpm : P.msg? mnRecord = some pm) (ci si di : Nat)
    (hn : DistNames pm ci si di) (ms : List Msg) (hms : ∀ m ∈ ms, m.num = mnRecord ∧ di < m.vals.length) (g : Globals) :
    DistRun pm di (effDist g) ms (expandList P g ms).1 := by
  induction ms generalizing g with
  | nil => simp [expandList, DistRun]
  | cons m ms ih =>
    obtain ⟨hnum, hlen⟩ := hms m (List.mem_cons_self ..)
    have hrest : ∀ x ∈ ms, x.num = mnRecord ∧ di < x.vals.length := fun x hx => hms x (List.mem_cons_of_mem _ hx)
    simp only [expandList, DistRun]
    rw [expandMsg_record P pm hpm m g hnum]
    obtain ⟨c1, c2⟩ := expandRecord_dist pm m g ci si di hn hlen
    cases hraw : csdRaw pm m with
    | some d =>
      simp only
      obtain ⟨e1, e2⟩ := c1 d hraw
      refine ⟨e2, ?_⟩
      have := ih hrest (expandRecord pm m g).2
      have heff : effDist (expandRecord pm m g).2 = ((effDist g).accumulate d).1 := by
        have hp : (((effDist g).accumulate d).1).present = true := by
          rw [accumulate_present]; exact effDist_present g
        show (if (expandRecord pm m g).2.dist.present then (expandRecord pm m g).2.dist else Accu.new 12) = _
        rw [e1, if_pos hp]
      rw [heff] at this
      exact this
    | none =>
      simp only
      obtain ⟨e1, e2⟩ := c2 hraw
      refine ⟨e2, ?_⟩
      have := ih hrest (expandRecord pm m g).2
      have heff : effDist (expandRecord pm m g).2 = effDist g := by
        show (if (expandRecord pm m g).2.dist.present then (expandRecord pm m g).2.dist else Accu.new 12) = _
        rw [e1]; rfl
      rw [heff] at this
      exact this

/-! ### the run in closed form -/

/-- rollover-corrected deltas of successive raw values of a `bits`-bit counter -/
def deltas (bits : Nat) (last : Nat) : List Nat → List Nat
  | [] => []
  | d :: r => ((d + 2 ^ 32 - last) % 2 ^ bits) :: deltas bits d r

/-- running sums -/
def prefixSums : Nat → List Nat → List Nat
  | _, [] => []
  | s, x :: r => (s + x) :: prefixSums (s + x) r

/-- the accumulated values an accumulator produces for successive raw values -/
def accValues (a : Accu) : List Nat → List Nat
  | [] => []
  | d :: r => (a.accumulate d).2 :: accValues (a.accumulate d).1 r

theorem accumulate_step (bits : Nat) (a : Accu) (v : Nat) (hm : a.mask = 2 ^ bits - 1) (hb : bits ≤ 32) :
    (a.accumulate v).2 = (a.value + (v + 2 ^ 32 - a.last) % 2 ^ bits) % 2 ^ 32 := by
  unfold Accu.accumulate
  simp only [hm, Nat.and_two_pow_sub_one_eq_mod]
  congr 2
  exact (Nat.mod_mod_of_dvd _ (Nat.pow_dvd_pow 2 hb))

theorem accumulate_value (a : Accu) (v : Nat) : (Accu.accumulate a v).1.value = (Accu.accumulate a v).2 := by
  show ({ a with value := _, last := v } : Accu).value = _
  rfl

theorem prefixSums_mod (s t : Nat) (xs : List Nat) (h : s % 2 ^ 32 = t % 2 ^ 32) :
    (prefixSums s xs).map (· % 2 ^ 32) = (prefixSums t xs).map (· % 2 ^ 32) := by
  induction xs generalizing s t with
  | nil => rfl
  | cons x r ih =>
    simp only [prefixSums, List.map_cons]
    have h2 : (s + x) % 2 ^ 32 = (t + x) % 2 ^ 32 := by
      rw [Nat.add_mod, h, ← Nat.add_mod]
    rw [h2, ih (s + x) (t + x) h2]

/-- **running sum**: a `bits`-bit accumulator turns successive raw values into the running sum
    (modulo 2^32) of their rollover-corrected deltas, on top of the value it started with -/
theorem accValues_closed (bits : Nat) (hb : bits ≤ 32) (a : Accu) (hm : a.mask = 2 ^ bits - 1) (ds : List Nat) :
    accValues a ds = (prefixSums a.value (deltas bits a.last ds)).map (· % 2 ^ 32) := by
  induction ds generalizing a with
  | nil => rfl
  | cons d r ih =>
    have s1 := accumulate_step bits a d hm hb
    have s2 := accumulate_last a d
    simp only [accValues, deltas, prefixSums, List.map_cons]
    rw [s1]
    congr 1
    have hm' : (a.accumulate d).1.mask = 2 ^ bits - 1 := by rw [accumulate_mask]; exact hm
    rw [ih (a.accumulate d).1 hm']
    rw [s2, accumulate_value, s1]
    exact prefixSums_mod _ _ _ (Nat.mod_mod _ _)

/-- when every record carries compressed_speed_distance, the distance fields are the accumulator's
    values for the raw values, one after another -/
theorem DistRun_all (pm : PMsg) (di : Nat) (a : Accu) (ms ms' : List Msg) (ds : List Nat)
    (hraw : ms.map (csdRaw pm) = ds.map some) (h : DistRun pm di a ms ms') :
    ms'.map (fun m => m.vals[di]?) = (accValues a ds).map fun v => some (Val.u v) := by
  induction ms generalizing a ms' ds with
  | nil =>
    cases ms' with
    | nil =>
      cases ds with
      | nil => rfl
      | cons d r => simp at hraw
    | cons x xs => simp [DistRun] at h
  | cons m ms ih =>
    cases ms' with
    | nil => simp [DistRun] at h
    | cons m' ms' =>
      cases ds with
      | nil => simp at hraw
      | cons d r =>
        simp only [List.map_cons, List.cons.injEq] at hraw
        obtain ⟨h1, h2⟩ := hraw
        simp only [DistRun, h1] at h
        obtain ⟨e, hrest⟩ := h
        simp only [List.map_cons, accValues, e]
        congr 1
        exact ih _ _ _ h2 hrest

/-- **C18, accumulated distance**: the records of a file, each carrying compressed_speed_distance
    with raw distance values `ds` (as the generated code extracts them), added one after another to a
    File while the package-level accumulator is `g.dist`: the distance fields of the stored records
    are the running sums, modulo 2^32, of the 12-bit rollover-corrected deltas of `ds`, on top of the
    value the accumulator in force started with. With no accumulator left behind by an earlier file
    (`g.dist.present = false`) that start is 0 and the first delta is the first raw value itself —
    "since the start of the same file"; otherwise (finding D12) the run continues the earlier file's. -/
theorem record_distance_running_sum (P : Profile) (pm : PMsg) (hpm : P.msg? mnRecord = some pm) (ci si di : Nat)
    (hn : DistNames pm ci si di) (ms : List Msg) (hms : ∀ m ∈ ms, m.num = mnRecord ∧ di < m.vals.length)
    (ds : List Nat) (hraw : ms.map (csdRaw pm) = ds.map some) (g : Globals)
    (hmask : g.dist.present = true → g.dist.mask = 2 ^ 12 - 1) :
    (expandList P g ms).1.map (fun m => m.vals[di]?) =
      ((prefixSums (effDist g).value (deltas 12 (effDist g).last ds)).map (· % 2 ^ 32)).map fun v => some (Val.u v) := by
  have hrun := expandList_dist P pm hpm ci si di hn ms hms g
  rw [DistRun_all pm di (effDist g) ms _ ds hraw hrun]
  have hm : (effDist g).mask = 2 ^ 12 - 1 := by
    unfold effDist
    split
    · rename_i hp; exact hmask hp
    · rfl
  rw [accValues_closed 12 (by omega) (effDist g) hm ds]

/-- the hypothesis on the accumulator's mask is an invariant: the decoder only ever creates the
    distance accumulator with 12 bits, and accumulating keeps the mask -/
theorem expandRecord_mask (pm : PMsg) (m : Msg) (g : Globals) (ci si di : Nat) (hn : DistNames pm ci si di)
    (hlen : di < m.vals.length) (hmask : g.dist.present = true → g.dist.mask = 2 ^ 12 - 1) :
    (expandRecord pm m g).2.dist.present = true → (expandRecord pm m g).2.dist.mask = 2 ^ 12 - 1 := by
  obtain ⟨c1, c2⟩ := expandRecord_dist pm m g ci si di hn hlen
  cases hraw : csdRaw pm m with
  | some d =>
    rw [(c1 d hraw).1, accumulate_mask]
    intro _
    unfold effDist
    split
    · rename_i hp; exact hmask hp
    · rfl
  | none => rw [(c2 hraw).1]; exact hmask

/-- D11 at the level of a run: an accumulator with mask 0 (what `new(uint32Accumulator)` gives for
    total_cycles and accumulated_power) reports its starting value for every raw value -/
theorem accValues_mask_zero (a : Accu) (hm : a.mask = 0) (hv : a.value < 2 ^ 32) (ds : List Nat) :
    accValues a ds = ds.map fun _ => a.value := by
  induction ds generalizing a with
  | nil => rfl
  | cons d r ih =>
    have e : (Accu.accumulate a d).2 = a.value := by
      unfold Accu.accumulate
      simp only [hm, Nat.and_zero, Nat.add_zero]
      exact Nat.mod_eq_of_lt hv
    have hm' : (Accu.accumulate a d).1.mask = 0 := by rw [accumulate_mask]; exact hm
    have hv' : (Accu.accumulate a d).1.value = a.value := by rw [accumulate_value, e]
    simp only [accValues, List.map_cons, e]
    congr 1
    rw [ih _ hm' (by rw [hv']; exact hv), hv']

end Fit
