import FitProofs.NoPanicField
import FitProofs.MsgRoundtrip
/-
  C07, first clause: every File `Decode` returns is well typed — each struct field of each message
  holds a value of the field's Go type — and `Encode` cannot panic on a well-typed File.  (In Go the
  first half is the type system's; in the model, where message values are untyped lists, it is an
  invariant of the decoder, and it is exactly what keeps `Encode`'s type assertions from failing.)
-/
namespace Fit

/-- value `v` has the Go type of a struct field of kind `k` -/
def ValOK : SlotKind → Val → Bool
  | .sc (.u _), .u _ => true
  | .sc (.i _), .i _ => true
  | .sc (.f _), .f _ => true
  | .sc .s, .s _ => true
  | .sl (.u _), .us _ => true
  | .sl (.i _), .is _ => true
  | .sl (.f _), .fs _ => true
  | .sl .s, .ss _ => true
  | .time, .t _ _ _ => true
  | .lat, .lat _ => true
  | .lng, .lng _ => true
  | .other, _ => true
  | _, _ => false

theorem zeroVal_ok (k : SlotKind) : ValOK k (zeroVal k) = true := by
  cases k with
  | sc s => cases s <;> rfl
  | sl s => cases s <;> rfl
  | _ => rfl

theorem setUint_ok (k : SlotKind) (x : Nat) (v : Val) (h : setUint k x = some v) : ValOK k v = true := by
  unfold setUint at h
  split at h
  · cases h; rfl
  · cases h

theorem setInt_ok (k : SlotKind) (x : Int) (v : Val) (h : setInt k x = some v) : ValOK k v = true := by
  unfold setInt at h
  split at h
  · cases h; rfl
  · cases h

theorem setFloat_ok (k : SlotKind) (x : Nat) (v : Val) (h : setFloat k x = some v) : ValOK k v = true := by
  unfold setFloat at h
  split at h
  · cases h; rfl
  · cases h

/-- what `parseFitField` stores has the field's Go type (a mismatch is a reflection panic) -/
theorem parseFitField_ok (arch : Endian) (fd : FieldDef) (k : SlotKind) (tmp : Bytes) (v : Val)
    (h : parseFitField arch fd k tmp = .ok (some v)) : ValOK k v = true := by
  unfold parseFitField at h
  dsimp only at h
  repeat' (split at h)
  all_goals (try cases h)
  all_goals first
    | (rename_i heq; exact setUint_ok _ _ _ heq)
    | (rename_i heq; exact setInt_ok _ _ _ heq)
    | (rename_i heq; exact setFloat_ok _ _ _ heq)
    | rfl

theorem parseFitFieldArray_ok (arch : Endian) (fd : FieldDef) (k : SlotKind) (tmp : Bytes) (v : Val)
    (h : parseFitFieldArray arch fd k tmp = .ok (some v)) : ValOK k v = true := by
  unfold parseFitFieldArray at h
  dsimp only at h
  repeat' (split at h)
  all_goals (try cases h)
  all_goals (try rfl)

/-- a message all of whose values have the Go types of its struct fields -/
def ValsOK (layout : List SlotKind) (vals : List Val) : Prop :=
  vals.length = layout.length ∧ ∀ (i : Nat) (k : SlotKind) (v : Val), layout[i]? = some k → vals[i]? = some v → ValOK k v = true

theorem ValsOK.set {layout : List SlotKind} {vals : List Val} (h : ValsOK layout vals) (i : Nat) (k : SlotKind) (v : Val)
    (hk : layout[i]? = some k) (hv : ValOK k v = true) : ValsOK layout (setAt vals i v) := by
  refine ⟨by rw [length_setAt]; exact h.1, ?_⟩
  intro j kj w hkj hw
  by_cases e : i = j
  · subst e
    have hlt : i < vals.length := by
      rw [h.1]; exact (List.getElem?_eq_some_iff.mp hk).1
    rw [getElem?_setAt_same _ _ _ hlt] at hw
    cases hw
    rw [hk] at hkj
    cases hkj
    exact hv
  · rw [getElem?_setAt_other _ _ _ _ e] at hw
    exact h.2 j kj w hkj hw

theorem parseTimeStamp_val (ts : TsRef) (pf : PField) (u : Nat) (v : Val) (h : (parseTimeStamp ts pf u).1 = some v) :
    ValOK .time v = true := by
  unfold parseTimeStamp at h
  repeat' (split at h)
  all_goals (simp only at h; try cases h)
  all_goals rfl

/-- one field keeps the message under construction well typed -/
theorem applyField_typed (P : Profile) (dm : DefMsg) (known : Bool) (fd : FieldDef) (raw : Bytes) (msg : Msg) (ts : TsRef)
    (pm : PMsg) (hpm : P.msg? dm.global = some pm) (hok : ValsOK pm.layout msg.vals)
    (m' : Option Msg) (ts' : TsRef) (h : applyField P dm known fd raw (some msg) ts = .ok m' ts') :
    ∃ msg', m' = some msg' ∧ ValsOK pm.layout msg'.vals ∧ msg'.num = msg.num := by
  have keep : (FieldsRes.ok (some msg) ts = .ok m' ts') → ∃ msg', m' = some msg' ∧ ValsOK pm.layout msg'.vals ∧ msg'.num = msg.num := by
    intro e; cases e; exact ⟨msg, rfl, hok, rfl⟩
  unfold applyField at h
  split at h
  · exact keep h
  · rename_i pf hpf
    dsimp only at h
    generalize (if tcBase pf.tcode ≠ Base.string ∧ (!tcArray pf.tcode) = true ∧ tcKind pf.tcode ≠ Kind.native then
      padTmp dm.arch fd.btype raw fd.size (Base.size (tcBase pf.tcode)) else raw) = tmp at h
    split at h
    · exact keep h
    · rw [hpm] at h
      simp only at h
      cases hk : pm.layout[pf.sindex]? with
      | none => rw [hk] at h; cases h
      | some k =>
        rw [hk] at h
        simp only at h
        have store : ∀ (o : Option Val) (t : TsRef), (∀ v, o = some v → ValOK k v = true) →
            (match o with
              | none => FieldsRes.ok (some msg) t
              | some v => FieldsRes.ok (some { msg with vals := setAt msg.vals pf.sindex v }) t) = .ok m' ts' →
            ∃ msg', m' = some msg' ∧ ValsOK pm.layout msg'.vals ∧ msg'.num = msg.num := by
          intro o t ho hh
          cases o with
          | none => cases hh; exact ⟨msg, rfl, hok, rfl⟩
          | some v => cases hh; exact ⟨_, rfl, hok.set pf.sindex k v hk (ho v rfl), rfl⟩
        split at h
        · -- native
          split at h
          · rename_i v hr
            refine store v ts ?_ h
            intro w hw
            subst hw
            split at hr
            · exact parseFitField_ok _ _ _ _ _ hr
            · exact parseFitFieldArray_ok _ _ _ _ _ hr
          · cases h
          · cases h
        · -- timeUTC
          split at h
          · cases h
          · split at h
            · cases h
            · rename_i hnot
              refine store _ _ ?_ h
              intro w hw
              have hk' : k = .time := by
                by_cases e : k = .time
                · exact e
                · exact absurd ⟨by rw [hw]; rfl, e⟩ hnot
              subst hk'
              exact parseTimeStamp_val _ _ _ _ hw
        · -- timeLocal
          split at h
          · cases h
          · split at h
            · cases h
            · rename_i hnot
              refine store _ _ ?_ h
              intro w hw
              have hk' : k = .time := by
                by_cases e : k = .time
                · exact e
                · exact absurd ⟨by rw [hw]; rfl, e⟩ hnot
              subst hk'
              exact parseTimeStamp_val _ _ _ _ hw
        · split at h
          · cases h
          · split at h
            · cases h
            · rename_i hkl
              have hk' : k = .lat := by
                by_cases e : k = .lat
                · exact e
                · exact absurd e hkl
              subst hk'
              cases h
              exact ⟨_, rfl, hok.set pf.sindex _ _ hk rfl, rfl⟩
        · split at h
          · cases h
          · split at h
            · cases h
            · rename_i hkl
              have hk' : k = .lng := by
                by_cases e : k = .lng
                · exact e
                · exact absurd e hkl
              subst hk'
              cases h
              exact ⟨_, rfl, hok.set pf.sindex _ _ hk rfl, rfl⟩
        · cases h

/-! ### component expansion keeps messages well typed -/

/-- names of the struct fields `expandComponents` writes -/
def expandDests : List String :=
  ["EnhancedAvgSpeed", "EnhancedMaxSpeed", "EnhancedAvgAltitude", "EnhancedMaxAltitude", "EnhancedMinAltitude",
   "EnhancedAltitude", "EnhancedSpeed", "Speed", "Distance", "TotalCycles", "AccumulatedPower", "Data", "Score",
   "OpponentScore", "RearGearNum", "RearGear", "FrontGearNum", "FrontGear"]

/-- in the five message types with component fields, every destination is an unsigned scalar struct
    field (checked on the regenerated profile by evaluation) -/
def xokB (P : Profile) : Bool :=
  expandSet.all fun n =>
    match P.msg? n with
    | none => true
    | some pm => expandDests.all fun name =>
      match pm.idx name with
      | none => true
      | some i => match pm.layout[i]? with
        | some (.sc (.u _)) => true
        | _ => false

/-- the destination `name` of message `pm`, if present, is an unsigned scalar -/
def DestOK (pm : PMsg) (name : String) : Prop :=
  ∀ i, pm.idx name = some i → ∃ w, pm.layout[i]? = some (.sc (.u w))

theorem xokB_dest (P : Profile) (h : xokB P = true) (n : Nat) (hn : n ∈ expandSet) (pm : PMsg) (hpm : P.msg? n = some pm)
    (name : String) (hname : name ∈ expandDests) : DestOK pm name := by
  unfold xokB at h
  simp only [List.all_eq_true] at h
  have h1 := h n hn
  rw [hpm] at h1
  simp only [List.all_eq_true] at h1
  have h2 := h1 name hname
  intro i hi
  rw [hi] at h2
  simp only at h2
  cases hl : pm.layout[i]? with
  | none => rw [hl] at h2; cases h2
  | some k =>
    rw [hl] at h2
    cases k with
    | sc s => cases s with
      | u w => exact ⟨w, rfl⟩
      | _ => cases h2
    | _ => cases h2

theorem setU_typed (pm : PMsg) (m : Msg) (name : String) (i n : Nat) (hi : pm.idx name = some i) (hd : DestOK pm name)
    (h : ValsOK pm.layout m.vals) : ValsOK pm.layout (m.setU i n).vals := by
  obtain ⟨w, hw⟩ := hd i hi
  exact h.set i _ _ hw rfl

theorem copyIfValid_typed (pm : PMsg) (m : Msg) (src dst : String) (inv : Nat) (hd : DestOK pm dst)
    (h : ValsOK pm.layout m.vals) : ValsOK pm.layout (copyIfValid pm m src dst inv).vals := by
  unfold copyIfValid
  split
  · rename_i si di hs hdi
    split
    · split
      · exact setU_typed pm m dst di _ hdi hd h
      · exact h
    · exact h
  · exact h

end Fit
