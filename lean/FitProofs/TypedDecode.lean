import FitProofs.TypedFile
import FitProofs.Framing
import FitProofs.Partial
/-
  Every File the decoder hands back — with a success or with an error — is well typed.
-/
namespace Fit

/-- every normal end state of the program satisfies `Q` -/
def EndsOK (Q : DecSt → Prop) : DP → Prop
  | .done st => Q st
  | .exit _ => True
  | .readBuf _ _ cont => ∀ bs, EndsOK Q (cont bs)

theorem EndsOK.run {Q : DecSt → Prop} (p : DP) (h : EndsOK Q p) (limit n : Nat) (s : SpecSt) (st : DecSt)
    (hr : (runSpecD limit p n s).1 = .inr st) : Q st := by
  induction p generalizing n s with
  | done x => simp only [runSpecD] at hr; cases hr; exact h
  | exit e => simp [runSpecD] at hr
  | readBuf k onErr cont ih =>
    simp only [runSpecD] at hr
    split at hr
    · exact ih _ (h _) _ _ hr
    · split at hr <;> cases hr

/-- the File in the decoder state, if any, is well typed and, when `att` is set, has its container
    attached -/
def TypedSt (P : Profile) (att : Bool) (st : DecSt) : Prop :=
  ∀ f, st.file = some f → FileTyped P f ∧ (att = true → f.cidx.isSome = true)

/-- the message under construction for definition `dm`, if any, is a well-typed message of that type -/
def BuildOK (P : Profile) (dm : DefMsg) (m : Option Msg) : Prop :=
  ∀ msg, m = some msg → ∃ pm, P.msg? dm.global = some pm ∧ pm.known = true ∧ ValsOK pm.layout msg.vals ∧
    msg.num = dm.global

theorem BuildOK.msgOK {P : Profile} {dm : DefMsg} {m : Option Msg} (h : BuildOK P dm m) (msg : Msg) (hm : m = some msg) :
    MsgOK P msg := by
  obtain ⟨pm, hpm, hk, hv, hn⟩ := h msg hm
  exact ⟨pm, by rw [hn]; exact hpm, hk, hv⟩

theorem applyField_none (P : Profile) (dm : DefMsg) (known : Bool) (fd : FieldDef) (raw : Bytes) (ts : TsRef)
    (m' : Option Msg) (ts' : TsRef) (h : applyField P dm known fd raw none ts = .ok m' ts') : m' = none := by
  unfold applyField at h
  split at h
  · cases h; rfl
  · dsimp only at h
    split at h
    · cases h; rfl
    · cases h

theorem applyField_build (P : Profile) (dm : DefMsg) (known : Bool) (fd : FieldDef) (raw : Bytes) (m : Option Msg) (ts : TsRef)
    (hm : BuildOK P dm m) (m' : Option Msg) (ts' : TsRef) (h : applyField P dm known fd raw m ts = .ok m' ts') :
    BuildOK P dm m' := by
  cases m with
  | none =>
    have := applyField_none P dm known fd raw ts m' ts' h
    subst this
    intro msg hx; cases hx
  | some msg =>
    obtain ⟨pm, hpm, hk, hv, hn⟩ := hm msg rfl
    obtain ⟨msg', e, hv', hn'⟩ := applyField_typed P dm known fd raw msg ts pm hpm hv m' ts' h
    subst e
    intro x hx
    cases hx
    exact ⟨pm, hpm, hk, hv', by rw [hn', hn]⟩

theorem rd_ends {Q : DecSt → Prop} (st : DecSt) (k : Nat) (c : Bytes → DecSt → DP)
    (hc : ∀ bs, EndsOK Q (c bs { st with n := st.n + k, crc := Crc.update st.crc bs })) : EndsOK Q (rd st k c) :=
  fun bs => hc bs

theorem parseFields_ends {Q : DecSt → Prop} {att : Bool} (P : Profile) (dm : DefMsg) (known : Bool) (fds : List FieldDef)
    (m : Option Msg) (st : DecSt) (c : Option Msg → DecSt → DP) (hm : BuildOK P dm m) (hst : TypedSt P att st)
    (hc : ∀ m' st', BuildOK P dm m' → TypedSt P att st' → EndsOK Q (c m' st')) :
    EndsOK Q (parseFields P dm known fds m st c) := by
  induction fds generalizing m st with
  | nil => exact hc m st hm hst
  | cons fd fds ih =>
    unfold parseFields
    dsimp only
    apply rd_ends
    intro raw
    split
    · trivial
    · trivial
    · rename_i m2 ts2 hap
      refine ih _ _ (applyField_build P dm known fd raw m _ hm m2 ts2 hap) ?_
      intro f hf
      apply hst f
      simp only [DecSt.setTs] at hf
      split at hf <;> exact hf

theorem skipDev_ends {Q : DecSt → Prop} {att : Bool} (P : Profile) (ds : List DevDesc) (st : DecSt) (c : DecSt → DP) (hst : TypedSt P att st)
    (hc : ∀ st', TypedSt P att st' → EndsOK Q (c st')) : EndsOK Q (skipDev ds st c) := by
  induction ds generalizing st with
  | nil => exact hc st hst
  | cons d ds ih =>
    unfold skipDev
    apply rd_ends
    intro _
    exact ih _ hst

theorem known_pm (P : Profile) (g : Nat) (pm : PMsg) (hpm : P.msg? g = some pm) (hk : P.known g = true) : pm.known = true := by
  unfold Profile.known at hk
  rw [hpm] at hk
  exact hk

/-- what `parseDataMessage` starts the field loop with: the all-invalid message of the definition's
    type (with the compressed timestamp, if any), well typed -/
theorem dataPre_typed (P : Profile) (hwf : ProfileWF P = true) (hb : Nat) (compressed : Bool) (st : DecSt)
    (dm : DefMsg) (m : Option Msg) (st' : DecSt) (h : dataPre P hb compressed st = .go dm m st') : BuildOK P dm m := by
  have hlook := dataPre_go P hb compressed st dm m st' h
  unfold dataPre at h
  dsimp only at h
  rw [hlook] at h
  dsimp only at h
  cases hkn : P.known dm.global with
  | false =>
    -- unknown message: nothing is built
    rw [hkn] at h
    simp only [Bool.false_eq_true, false_and, ↓reduceIte] at h
    have : m = none := by
      repeat' (split at h)
      all_goals first | (cases h; rfl) | cases h
    subst this
    intro msg hx; cases hx
  | true =>
    rw [hkn] at h
    cases hpm : P.msg? dm.global with
    | none =>
      rw [hpm] at h
      simp at h
    | some pm =>
      rw [hpm] at h
      have hk := known_pm P _ pm hpm hkn
      have hinv := invalid_typed pm (msg?_wf P hwf _ pm hpm) hk
      simp only at h
      cases hct : pm.hasCtor with
      | false => simp [hct] at h
      | true =>
        simp only [hct, ↓reduceIte, true_and, Option.isNone_some, Bool.false_eq_true, Bool.not_true] at h
        split at h
        · cases h
          intro x hx; cases hx
          exact ⟨pm, hpm, hk, hinv, rfl⟩
        · split at h
          · cases h
            intro x hx; cases hx
            exact ⟨pm, hpm, hk, hinv, rfl⟩
          · rename_i pf hpf
            split at h
            · rename_i hlay
              cases h
              intro x hx; cases hx
              exact ⟨pm, hpm, hk, hinv.set pf.sindex .time _ hlay rfl, rfl⟩
            · cases h

theorem TypedSt.of_file {P : Profile} {att : Bool} {st st' : DecSt} (h : TypedSt P att st) (e : st'.file = st.file) : TypedSt P att st' :=
  fun f hf => h f (e ▸ hf)

theorem parseData_ends {Q : DecSt → Prop} {att : Bool} (P : Profile) (hwf : ProfileWF P = true) (hb : Nat) (compressed : Bool)
    (st : DecSt) (c : Option Msg → DecSt → DP) (hst : TypedSt P att st)
    (hc : ∀ dm m' st', BuildOK P dm m' → TypedSt P att st' → EndsOK Q (c m' st')) :
    EndsOK Q (parseData P hb compressed st c) := by
  rw [parseData_pre]
  have hfile := dataPre_fileOf P hb compressed st
  cases hd : dataPre P hb compressed st with
  | stop b st' => cases b <;> trivial
  | go dm m st' =>
    rw [hd] at hfile
    have hst' : TypedSt P att st' := hst.of_file (congrArg Prod.fst hfile)
    exact parseFields_ends P dm _ dm.fields m st' _ (dataPre_typed P hwf hb compressed st dm m st' hd) hst'
      fun m2 st2 hm2 hst2 => skipDev_ends P dm.dev st2 _ hst2 fun st3 hst3 => hc dm m2 st3 hm2 hst3

theorem parseDefinition_ends {Q : DecSt → Prop} (P : Profile) (hb : Nat) (st : DecSt) (c : DefMsg → DecSt → DP)
    (hc : ∀ dm st', st'.file = st.file → EndsOK Q (c dm st')) : EndsOK Q (parseDefinition P hb st c) := by
  unfold parseDefinition
  dsimp only
  apply rd_ends; intro _
  apply rd_ends; intro a
  split
  · trivial
  · generalize (if (a.headD 0).toNat = 0 then Endian.le else Endian.be) = arch
    apply rd_ends; intro g
    split
    · trivial
    · apply rd_ends; intro nf
      split
      · exact hc _ _ rfl
      · apply rd_ends; intro fb
        split
        · trivial
        · split
          · apply rd_ends; intro nd
            apply rd_ends; intro db
            exact hc _ _ rfl
          · exact hc _ _ rfl

/-- `d.file.add(msg)` keeps the File well typed -/
theorem addMsg_typed {att : Bool} (P : Profile) (hx : xokB P = true) (hfl : fidLayoutB P = true) (dm : DefMsg) (m : Option Msg) (st st2 : DecSt)
    (hm : BuildOK P dm m) (hst : TypedSt P att st) (h : addMsg P m st = some st2) : TypedSt P att st2 := by
  unfold addMsg at h
  cases m with
  | none => cases h; exact hst
  | some msg =>
    simp only at h
    cases hf : st.file with
    | none => rw [hf] at h; cases h
    | some f =>
      rw [hf] at h
      simp only at h
      cases ha : f.add P msg st.glob with
      | none => rw [ha] at h; cases h
      | some r =>
        obtain ⟨f', g'⟩ := r
        rw [ha] at h
        cases h
        intro x hxx
        cases hxx
        refine ⟨add_typed P hx hfl f msg st.glob f' g' (hst f hf).1 (hm.msgOK msg rfl) ha, ?_⟩
        intro hatt
        have hci := (hst f hf).2 hatt
        obtain ⟨f2, g2, ha2, hc2⟩ := add_some P f msg st.glob (Or.inl hci)
        rw [ha] at ha2
        cases ha2
        rw [hc2]; exact hci

theorem decodeFileData_ends {att : Bool} (P : Profile) (hwf : ProfileWF P = true) (hx : xokB P = true) (hfl : fidLayoutB P = true) (limit fuel : Nat) (st : DecSt)
    (hst : TypedSt P att st) : EndsOK (TypedSt P att) (decodeFileData P limit fuel st fun st => .done st) := by
  induction fuel generalizing st with
  | zero => exact hst
  | succ fuel ih =>
    simp only [decodeFileData]
    split
    · apply rd_ends
      intro hbs
      have hst1 : TypedSt P att { st with n := st.n + 1, crc := Crc.update st.crc hbs } := hst
      have addK : ∀ (dm : DefMsg) (m : Option Msg) (st' : DecSt), BuildOK P dm m → TypedSt P att st' →
          EndsOK (TypedSt P att) (match addMsg P m st' with
            | none => dpanic st'
            | some st => decodeFileData P limit fuel st fun st => .done st) := by
        intro dm m st' hm hs'
        cases ha : addMsg P m st' with
        | none => trivial
        | some st2 => exact ih st2 (addMsg_typed P hx hfl dm m st' st2 hm hs' ha)
      split
      · exact parseData_ends P hwf _ true _ _ hst1 addK
      · split
        · exact parseDefinition_ends P _ _ _ fun dm st' hf => ih _ (hst1.of_file hf)
        · exact parseData_ends P hwf _ false _ _ hst1 addK
    · exact hst

theorem parseFileIdMsg_ends {Q : DecSt → Prop} {att : Bool} (P : Profile) (hwf : ProfileWF P = true) (hx : xokB P = true)
    (hfl : fidLayoutB P = true) (st : DecSt)
    (c : DecSt → DP) (hst : TypedSt P att st) (hc : ∀ st', TypedSt P att st' → EndsOK Q (c st')) :
    EndsOK Q (parseFileIdMsg P st c) := by
  unfold parseFileIdMsg
  apply rd_ends
  intro hbs
  dsimp only
  split
  · trivial
  · apply parseDefinition_ends
    intro dm st1 hf1
    split
    · trivial
    · apply rd_ends
      intro hbs2
      have hst2 : TypedSt P att { ({ st1 with defs := setAt st1.defs dm.localT (some dm) } : DecSt) with
          n := st1.n + 1, crc := Crc.update st1.crc hbs2 } := hst.of_file hf1
      apply parseData_ends P hwf _ false _ _ hst2
      intro dm2 m st3 hm hst3
      cases m with
      | none => trivial
      | some msg =>
        simp only
        split
        · trivial
        · cases ha : addMsg P (some msg) st3 with
          | none => trivial
          | some st4 => exact hc st4 (addMsg_typed P hx hfl dm2 (some msg) st3 st4 hm hst3 ha)

theorem FileTyped.congr {P : Profile} {f f' : FileSt} (h : FileTyped P f) (e1 : f'.fileId = f.fileId)
    (e2 : f'.creator = f.creator) (e3 : f'.tscorr = f.tscorr) (e4 : f'.cidx = f.cidx) (e5 : f'.slots = f.slots)
    (e0 : f'.hdr = f.hdr) :
    FileTyped P f' :=
  ⟨by rw [e1]; exact h.fid, by rw [e2]; exact h.creator, by rw [e3]; exact h.tscorr, by rw [e4, e5]; exact h.slots,
    by
      have : fileTypeOf f' = fileTypeOf f := by unfold fileTypeOf; rw [e1]
      rw [e4, this]; exact h.ctype,
    by rw [e0]; exact h.hdr⟩

theorem zeroFileId_ok (P : Profile) (hwf : ProfileWF P = true) : MsgOK P (zeroFileId P) ∧ (zeroFileId P).num = mnFileId := by
  have hkn : P.known mnFileId = true := by
    unfold ProfileWF at hwf
    simp only [Bool.and_eq_true] at hwf
    exact hwf.2
  obtain ⟨pm, hpm, hk⟩ := known_msg P mnFileId hkn
  unfold zeroFileId
  rw [hpm]
  refine ⟨⟨pm, hpm, hk, by simp, ?_⟩, rfl⟩
  intro i k v hki hvi
  simp only [List.getElem?_map, hki, Option.map_some, Option.some.injEq] at hvi
  subst hvi
  exact zeroVal_ok k

theorem init_typed (P : Profile) (f f' : FileSt) (hf : FileTyped P f) (h : f.init P = .ok f') : FileTyped P f' := by
  unfold FileSt.init at h
  split at h
  · rename_i ci hci
    cases h
    refine ⟨hf.fid, hf.creator, hf.tscorr, ?_, ?_, hf.hdr⟩
    · intro i _ j ms hj x hx
      simp only [List.getElem?_replicate] at hj
      split at hj
      · cases hj; cases hx
      · cases hj
    · intro i hi
      cases hi
      exact hci
  · cases h
  · cases h

theorem recordsProg_ends (P : Profile) (hwf : ProfileWF P = true) (hx : xokB P = true) (hfl : fidLayoutB P = true) (st : DecSt)
    (hst : TypedSt P false st) : EndsOK (TypedSt P true) (recordsProg P .full st) := by
  unfold recordsProg
  apply parseFileIdMsg_ends P hwf hx hfl st _ hst
  intro st1 hst1
  have hmode : ¬ (Mode.full = Mode.fileIdOnly) := by decide
  simp only [hmode, ↓reduceIte]
  cases hf : st1.file with
  | none => trivial
  | some f =>
    simp only
    cases hi : f.init P with
    | error c => trivial
    | ok f' =>
      simp only
      apply decodeFileData_ends P hwf hx hfl
      intro x hxx
      cases hxx
      refine ⟨init_typed P f f' (hst1 f hf).1 hi, fun _ => ?_⟩
      unfold FileSt.init at hi
      split at hi
      · cases hi; rfl
      · cases hi
      · cases hi

/-- `decodeHeader_cases` keeping what the size test established -/
theorem decodeHeader_cases_size (Q : Outcome → Prop) (st : DecSt) (cont : DecSt → HP) (s : SpecSt)
    (hfail : ∀ st2 c b, Q { fail st2 c with cleanEOF := b })
    (hcont : ∀ st' s1 size sb tmp, (size = headerSizeNoCRC ∨ size = headerSizeCRC) →
      headerCheck { st with hdr := { st.hdr with size := size } } sb tmp = .ok st' →
      Q (runSpec (cont st') s1).1) :
    Q (runSpec (decodeHeader st cont) s).1 := by
  unfold decodeHeader
  simp only [runSpec]
  by_cases h1 : 1 ≤ s.rest.length
  · rw [if_pos h1]
    split
    · simp only [runSpec]
      exact hfail _ _ false
    · rename_i hsz
      simp only [runSpec]
      split
      · split
        · simp only [runSpec]
          exact hfail _ _ false
        · rename_i st' hc
          refine hcont st' _ _ _ _ ?_ hc
          by_cases e : ((s.rest.take 1).headD 0).toNat = headerSizeCRC
          · exact Or.inr e
          · by_cases e2 : ((s.rest.take 1).headD 0).toNat = headerSizeNoCRC
            · exact Or.inl e2
            · exact absurd ⟨e, e2⟩ hsz
      · exact hfail _ _ false
  · rw [if_neg h1]
    cases s.stop
    · exact hfail _ _ true
    · exact hfail _ _ false

/-- a header that passed `headerCheck` is legal -/
theorem headerCheck_legal (st st' : DecSt) (sb tmp : Bytes) (size : Nat)
    (hsz : size = headerSizeNoCRC ∨ size = headerSizeCRC) (hst : st.hdr.size = size)
    (h : headerCheck st sb tmp = .ok st') : HdrLegal st'.hdr := by
  unfold headerCheck at h
  simp only at h
  split at h
  · cases h
  · rename_i hpv
    split at h
    · cases h
    · rename_i htag
      have hp : (tmp.headD 0).toNat < 256 := (tmp.headD 0).toNat_lt
      have hp2 : (tmp.headD 0).toNat / 16 ≤ protoMajorMax := by omega
      have ht : (tmp.drop 7).take 4 = fitTag := by
        by_cases e : (tmp.drop 7).take 4 = fitTag
        · exact e
        · exact absurd e (by simpa using htag)
      split at h
      · cases h
        exact ⟨by rw [← hst] at hsz; exact hsz, ht, hp, hp2⟩
      · split at h
        · cases h
          exact ⟨by rw [← hst] at hsz; exact hsz, ht, hp, hp2⟩
        · split at h
          · cases h
          · cases h
            exact ⟨by rw [← hst] at hsz; exact hsz, ht, hp, hp2⟩

/-- **Every File a successful `Decode` returns is well typed**: each message is of a known type and
    every struct field holds a value of its Go type; every container field holds messages of its
    element type. -/
theorem success_typed (P : Profile) (hwf : ProfileWF P = true) (hx : xokB P = true) (hfl : fidLayoutB P = true) (g : Globals) (s : SpecSt)
    (hs : (runSpec (decodeProg P .full g) s).1.success) :
    ∀ F, (runSpec (decodeProg P .full g) s).1.st.file = some F → FileTyped P F ∧ F.cidx.isSome = true := by
  revert hs
  unfold decodeProg
  apply decodeHeader_cases_size (fun o => o.success → ∀ F, o.st.file = some F → FileTyped P F ∧ F.cidx.isSome = true)
  · intro st2 c b h; exact absurd h (by simp [fail, Outcome.success])
  · intro st' s1 size sb tmp hsz hc
    have hleg : HdrLegal st'.hdr := headerCheck_legal _ st' sb tmp size hsz rfl hc
    have hst0 : TypedSt P false { st' with file := some { hdr := st'.hdr, fileId := zeroFileId P }, unkInit := true } := by
      intro f hf
      cases hf
      exact ⟨⟨zeroFileId_ok P hwf, (fun _ h => by cases h), (fun _ h => by cases h), (fun _ h => by cases h), (fun _ h => by cases h), hleg⟩,
        fun h => by cases h⟩
    simp only [runSpec]
    have hw := fun x => EndsOK.run _ (recordsProg_ends P hwf hx hfl _ hst0) st'.hdr.dataSize 0
      { s1 with frameEnd := s1.taken + st'.hdr.dataSize } x
    generalize runSpecD st'.hdr.dataSize (recordsProg P .full
      { st' with file := some { hdr := st'.hdr, fileId := zeroFileId P }, unkInit := true }) 0
      { s1 with frameEnd := s1.taken + st'.hdr.dataSize } = r at hw
    obtain ⟨o, n, s'⟩ := r
    cases o with
    | inl e => intro h; exact absurd h (toOutcome_not_success e)
    | inr x =>
      have hxt : TypedSt P true x := hw x rfl
      simp only
      split
      · intro _ F hF
        unfold checkCRC at hF
        simp only [runSpecT] at hF
        split at hF
        · have hmap : ∀ (o2 : Outcome), o2.st.file = x.file.map (fun f => { f with crc := leNat (s'.rest.take 2) }) →
              o2.st.file = some F → FileTyped P F ∧ F.cidx.isSome = true := by
            intro o2 e1 e2
            rw [e1] at e2
            cases hxf : x.file with
            | none => rw [hxf] at e2; cases e2
            | some f0 =>
              rw [hxf] at e2
              cases e2
              exact ⟨(hxt f0 hxf).1.congr rfl rfl rfl rfl rfl rfl, (hxt f0 hxf).2 rfl⟩
          split at hF
          · exact hmap _ rfl hF
          · exact hmap _ rfl hF
        · exact ⟨(hxt F hF).1, (hxt F hF).2 rfl⟩
      · intro h; simp [panicOut, Outcome.success] at h

end Fit
