import FitProofs.TypedDecode
import FitProofs.EncodeFile
/-
  `Encode` cannot panic on a well-typed File.
-/
namespace Fit

theorem concatE_no_panic (l : List (Except EncErr Bytes)) (h : ∀ r ∈ l, r ≠ .error .panic) : concatE l ≠ .error .panic := by
  induction l with
  | nil => simp [concatE]
  | cons x xs ih =>
    cases x with
    | error e =>
      simp only [concatE]
      intro he
      cases he
      exact h _ (List.mem_cons_self ..) rfl
    | ok b =>
      simp only [concatE]
      have := ih (fun r hr => h r (List.mem_cons_of_mem _ hr))
      cases hc : concatE xs with
      | ok r => simp
      | error e =>
        rw [hc] at this
        simp only
        intro he
        cases he
        exact this rfl

theorem encodeString_no_panic (b : Bytes) (n : Nat) (hn : 1 ≤ n) : encodeString b n ≠ .error .panic := by
  unfold encodeString
  have : ¬ n = 0 := by omega
  simp only [this, ↓reduceIte]
  split <;> simp

/-- a native scalar value never trips a type assertion -/
theorem encodeScalar_native_no_panic (arch : Endian) (pf : PField) (k : Sc) (v : Val) (hk : tcKind pf.tcode = .native)
    (hl : 1 ≤ pf.length) (hv : match v with | .u _ | .i _ | .f _ | .s _ => True | _ => False) :
    encodeScalar arch pf k v ≠ .error .panic := by
  unfold encodeScalar
  rw [hk]
  cases v with
  | u n => simp only; split <;> simp
  | i z => simp only; split <;> simp
  | f n => simp only; split <;> simp
  | s b =>
    simp only
    split
    · have := encodeString_no_panic b pf.length hl
      cases he : encodeString b pf.length with
      | ok bs => simp
      | error e =>
        rw [he] at this
        simp only
        intro h; cases h; exact this rfl
    · simp
  | _ => cases hv

/-- **`writeField` cannot panic on a value of the field's Go type** -/
theorem writeField_no_panic (arch : Endian) (pm : PMsg) (pf : PField) (k : SlotKind) (v : Val)
    (facts : FieldFacts pm pf) (hk : pm.layout[pf.sindex]? = some k) (hv : ValOK k v = true) :
    writeField arch pf k v ≠ .error .panic := by
  obtain ⟨k', hk1, hk2⟩ := facts.slot
  rw [hk] at hk1
  cases hk1
  have hkind := facts.kind
  unfold slotOfType at hk2
  unfold writeField
  cases hkd : tcKind pf.tcode with
  | native =>
    rw [hkd] at hk2
    simp only at hk2
    cases hs : scOfBase (tcBase pf.tcode) with
    | none => rw [hs] at hk2; cases hk2
    | some sk =>
      rw [hs] at hk2
      simp only at hk2
      cases ha : tcArray pf.tcode with
      | false =>
        rw [ha] at hk2
        simp only [Bool.false_eq_true, ↓reduceIte, Option.some.injEq] at hk2
        subst hk2
        simp only [Bool.not_false, ↓reduceIte]
        apply encodeScalar_native_no_panic arch pf sk v hkd facts.len1
        cases sk <;> cases v <;> simp_all [ValOK]
      | true =>
        simp only [Bool.not_true, Bool.false_eq_true, ↓reduceIte]
        split
        · simp
        · have hel : ∀ (elems : List Val) (ek : Sc), (∀ e ∈ elems, match e with | .u _ | .i _ | .f _ | .s _ => True | _ => False) →
              concatE (elems.map (encodeScalar arch pf ek)) ≠ .error .panic := by
            intro elems ek he
            apply concatE_no_panic
            intro r hr
            simp only [List.mem_map] at hr
            obtain ⟨e, hem, rfl⟩ := hr
            exact encodeScalar_native_no_panic arch pf ek e hkd facts.len1 (he e hem)
          have hall : ∀ e ∈ (match v with
              | .us (some xs) => xs.map Val.u
              | .is (some xs) => xs.map Val.i
              | .fs (some xs) => xs.map Val.f
              | _ => ([] : List Val)), match e with | .u _ | .i _ | .f _ | .s _ => True | _ => False := by
            intro e he
            split at he
            · simp only [List.mem_map] at he; obtain ⟨_, _, rfl⟩ := he; trivial
            · simp only [List.mem_map] at he; obtain ⟨_, _, rfl⟩ := he; trivial
            · simp only [List.mem_map] at he; obtain ⟨_, _, rfl⟩ := he; trivial
            · cases he
          intro hcontra
          split at hcontra
          · rename_i e hce
            cases hcontra
            exact hel _ _ (fun e he => hall e (List.mem_of_mem_take he)) hce
          · cases hcontra
  | timeUTC =>
    rw [hkd] at hk2 hkind
    simp only at hk2 hkind
    rw [hkind.2] at hk2
    simp only [Bool.false_eq_true, ↓reduceIte, Option.some.injEq] at hk2
    subst hk2
    simp only [hkind.2, Bool.not_false, ↓reduceIte]
    cases v <;> simp_all [ValOK, encodeScalar]
  | timeLocal =>
    rw [hkd] at hk2 hkind
    simp only at hk2 hkind
    rw [hkind.2] at hk2
    simp only [Bool.false_eq_true, ↓reduceIte, Option.some.injEq] at hk2
    subst hk2
    simp only [hkind.2, Bool.not_false, ↓reduceIte]
    cases v <;> simp_all [ValOK, encodeScalar]
  | lat =>
    rw [hkd] at hk2 hkind
    simp only at hk2 hkind
    rw [hkind.2] at hk2
    simp only [Bool.false_eq_true, ↓reduceIte, Option.some.injEq] at hk2
    subst hk2
    simp only [hkind.2, Bool.not_false, ↓reduceIte]
    cases v <;> simp_all [ValOK, encodeScalar]
  | lng =>
    rw [hkd] at hk2 hkind
    simp only at hk2 hkind
    rw [hkind.2] at hk2
    simp only [Bool.false_eq_true, ↓reduceIte, Option.some.injEq] at hk2
    subst hk2
    simp only [hkind.2, Bool.not_false, ↓reduceIte]
    cases v <;> simp_all [ValOK, encodeScalar]
  | unknown n => rw [hkd] at hkind; exact absurd hkind id

theorem fieldBySindex_some (pm : PMsg) (i : Nat) (h : ∃ pf ∈ pm.fields, pf.sindex = i) : ∃ pf, fieldBySindex pm i = some pf := by
  unfold fieldBySindex
  cases hf : pm.fields.find? (·.sindex == i) with
  | some pf => exact ⟨pf, rfl⟩
  | none =>
    obtain ⟨pf, hp, hs⟩ := h
    have := List.find?_eq_none.mp hf pf hp
    simp [hs] at this

/-- `getEncodeMesgDef` finds a lookup entry for every valid struct field of a well-typed message -/
theorem encodeMesgDef_some (pm : PMsg) (hmw : msgWF pm = true) (hk : pm.known = true) (m : Msg)
    (hv : ValsOK pm.layout m.vals) : ∃ fs, encodeMesgDef pm m = some fs := by
  obtain ⟨_, _, _, hcov⟩ := msgWF_known pm hmw hk
  unfold encodeMesgDef
  have : ∀ idx : List Nat, (∀ i ∈ idx, i < pm.layout.length) → ∃ fs, idx.foldr (fun i acc =>
      match acc with
      | none => none
      | some fs =>
        let v := m.vals.getD i (.u 0)
        if isInvalidVal pm i v then some fs
        else match fieldBySindex pm i with
          | some pf => some (pf :: fs)
          | none => none) (some []) = some fs := by
    intro idx hidx
    induction idx with
    | nil => exact ⟨[], rfl⟩
    | cons i idx ih =>
      obtain ⟨fs, hfs⟩ := ih (fun j hj => hidx j (List.mem_cons_of_mem _ hj))
      simp only [List.foldr_cons, hfs]
      split
      · exact ⟨fs, rfl⟩
      · obtain ⟨pf, hpf⟩ := fieldBySindex_some pm i (hcov i (hidx i (List.mem_cons_self ..)))
        rw [hpf]
        exact ⟨pf :: fs, rfl⟩
  apply this
  intro i hi
  rw [List.mem_range] at hi
  rw [← hv.1]; exact hi

/-- a data record of a well-typed message under lookup entries of its message cannot panic -/
theorem mesgBytes_no_panic (arch : Endian) (pm : PMsg) (hmw : msgWF pm = true) (m : Msg) (hv : ValsOK pm.layout m.vals)
    (fs : List PField) (hfs : ∀ pf ∈ fs, pf ∈ pm.fields) : mesgBytes arch pm m fs ≠ .error .panic := by
  unfold mesgBytes
  have hc : concatE (fs.map fun pf =>
      match pm.layout[pf.sindex]?, m.vals[pf.sindex]? with
      | some k, some v => writeField arch pf k v
      | _, _ => .error .panic) ≠ .error .panic := by
    apply concatE_no_panic
    intro r hr
    simp only [List.mem_map] at hr
    obtain ⟨pf, hpf, rfl⟩ := hr
    have facts := fieldWF_facts pm pf ((msgWF_bounds pm hmw).2.2.2 pf (hfs pf hpf))
    obtain ⟨k, hk, _⟩ := facts.slot
    have hlt : pf.sindex < m.vals.length := by rw [hv.1]; exact (List.getElem?_eq_some_iff.mp hk).1
    have hval : m.vals[pf.sindex]? = some m.vals[pf.sindex] := List.getElem?_eq_getElem hlt
    rw [hk, hval]
    exact writeField_no_panic arch pm pf k _ facts hk (hv.2 _ k _ hk hval)
  intro h
  split at h
  · cases h
  · rename_i e he
    cases h
    exact hc he

theorem encodeOne_no_panic (P : Profile) (hwf : ProfileWF P = true) (arch : Endian) (m : Msg) (hm : MsgOK P m) :
    encodeOne P arch m ≠ .error .panic := by
  obtain ⟨pm, hpm, hk, hv⟩ := hm
  have hmw := msg?_wf P hwf m.num pm hpm
  obtain ⟨ht, hc, hlen, _⟩ := msgWF_known pm hmw hk
  unfold encodeOne
  rw [hpm]
  simp only [ht, hc, Bool.and_self, Bool.not_true, Bool.false_eq_true, false_or]
  have hl : ¬ m.vals.length ≠ pm.invalid.length := by rw [hv.1, hlen]; simp
  rw [if_neg hl]
  obtain ⟨fs, hfs⟩ := encodeMesgDef_some pm hmw hk m hv
  rw [hfs]
  simp only
  have := mesgBytes_no_panic arch pm hmw m hv fs (encodeMesgDef_mem pm m fs hfs).1
  cases hb : mesgBytes arch pm m fs with
  | ok b => simp
  | error e =>
    rw [hb] at this
    simp only
    intro h; cases h; exact this rfl

theorem encodeGroup_no_panic (P : Profile) (hwf : ProfileWF P = true) (arch : Endian) (ms : List Msg)
    (hm : ∀ m ∈ ms, MsgOK P m) (hnum : ∀ m ∈ ms, ∀ m' ∈ ms, m.num = m'.num) : encodeGroup P arch ms ≠ .error .panic := by
  cases ms with
  | nil => simp [encodeGroup]
  | cons m0 rest =>
    obtain ⟨pm, hpm, hk, hv0⟩ := hm m0 (List.mem_cons_self ..)
    have hmw := msg?_wf P hwf m0.num pm hpm
    obtain ⟨ht, hc, hlen, _⟩ := msgWF_known pm hmw hk
    have hall : ∀ m ∈ m0 :: rest, ValsOK pm.layout m.vals := by
      intro m hmem
      obtain ⟨pm', hpm', _, hv'⟩ := hm m hmem
      rw [hnum m hmem m0 (List.mem_cons_self ..), hpm] at hpm'
      cases hpm'
      exact hv'
    unfold encodeGroup
    simp only
    rw [hpm]
    simp only [ht, hc, Bool.and_self, Bool.not_true, Bool.false_eq_true, false_or]
    have hany : ¬ ((m0 :: rest).any (fun m => decide (m.vals.length ≠ pm.invalid.length)) = true) := by
      simp only [List.any_eq_true, decide_eq_true_eq, not_exists, not_and, Decidable.not_not]
      intro m hmem
      rw [(hall m hmem).1, hlen]
    rw [if_neg hany]
    -- every member has a definition
    have hdefs : ∃ defs, (m0 :: rest).mapM (encodeMesgDef pm) = some defs ∧
        ∀ l ∈ defs, ∀ pf ∈ l, pf ∈ pm.fields := by
      have : ∀ l : List Msg, (∀ m ∈ l, ValsOK pm.layout m.vals) → ∃ defs, l.mapM (encodeMesgDef pm) = some defs ∧
          ∀ d ∈ defs, ∀ pf ∈ d, pf ∈ pm.fields := by
        intro l hl
        induction l with
        | nil => exact ⟨[], rfl, fun _ h => by cases h⟩
        | cons m ms ih =>
          obtain ⟨fs, hfs⟩ := encodeMesgDef_some pm hmw hk m (hl m (List.mem_cons_self ..))
          obtain ⟨ds, hds, hmem⟩ := ih (fun x hx => hl x (List.mem_cons_of_mem _ hx))
          refine ⟨fs :: ds, by simp [List.mapM_cons, hfs, hds], ?_⟩
          intro d hd pf hp
          cases hd with
          | head => exact (encodeMesgDef_mem pm m fs hfs).1 pf hp
          | tail _ hd' => exact hmem d hd' pf hp
      exact this _ hall
    obtain ⟨defs, hd1, hd2⟩ := hdefs
    rw [hd1]
    simp only
    have hfsm : ∀ pf ∈ defs.flatten.foldl (fun acc pf => insertField pf acc) [], pf ∈ pm.fields := by
      intro pf hp
      rcases foldl_insertField_mem _ _ _ hp with h | h
      · rw [List.mem_flatten] at h
        obtain ⟨l, hl, hpl⟩ := h
        exact hd2 l hl pf hpl
      · cases h
    have hc2 : concatE ((m0 :: rest).map fun m => mesgBytes arch pm m
        (defs.flatten.foldl (fun acc pf => insertField pf acc) [])) ≠ .error .panic := by
      apply concatE_no_panic
      intro r hr
      simp only [List.mem_map] at hr
      obtain ⟨m, hmem, rfl⟩ := hr
      exact mesgBytes_no_panic arch pm hmw m (hall m hmem) _ hfsm
    intro h
    split at h
    · cases h
    · rename_i e he
      cases h
      exact hc2 he

/-- **`Encode` cannot panic on a well-typed File** whose container is attached. -/
theorem encode_no_panic (P : Profile) (hwf : ProfileWF P = true) (arch : Endian) (f : FileSt) (hf : FileTyped P f)
    (hc : f.cidx.isSome = true) : encode P arch f ≠ .panic := by
  obtain ⟨i, hi⟩ := Option.isSome_iff_exists.mp hc
  unfold encode
  rw [hf.ctype i hi]
  simp only [hi, ne_eq, not_true_eq_false, ↓reduceIte]
  have hbody : encodeBody P arch f (P.containers.getD i default) ≠ .error .panic := by
    unfold encodeBody
    apply concatE_no_panic
    intro r hr
    simp only [List.cons_append, List.nil_append, List.mem_cons, List.mem_map] at hr
    rcases hr with rfl | rfl | rfl | ⟨⟨cs, ms⟩, hmem, rfl⟩
    · exact encodeOne_no_panic P hwf arch _ hf.fid.1
    · cases hcr : f.creator with
      | none => simp
      | some m => exact encodeOne_no_panic P hwf arch m (hf.creator m hcr).1
    · cases hts : f.tscorr with
      | none => simp
      | some m => exact encodeOne_no_panic P hwf arch m (hf.tscorr m hts).1
    · have hms : ms ∈ f.slots := (List.of_mem_zip hmem).2
      obtain ⟨j, hj⟩ := List.mem_iff_getElem?.mp hms
      have hso := hf.slots i hi j ms hj
      simp only
      split
      · exact encodeGroup_no_panic P hwf arch ms (fun m hm => (hso m hm).1)
          (fun m hm m' hm' => by rw [(hso m hm).2, (hso m' hm').2])
      · cases ms with
        | nil => simp
        | cons m rest => exact encodeOne_no_panic P hwf arch m (hso m (List.mem_cons_self ..)).1
  cases hb : encodeBody P arch f (P.containers.getD i default) with
  | ok b => simp
  | error e =>
    cases e with
    | error => simp
    | panic => exact absurd hb hbody

end Fit
