import FitProofs.Typed
/-
  `expandComponents` keeps a message well typed (and its number), given that its destinations are
  unsigned scalar struct fields.
-/
namespace Fit

/-- all destinations of message `pm` are unsigned scalars -/
def DestsOK (pm : PMsg) : Prop := ∀ name ∈ expandDests, DestOK pm name

macro "dest" : tactic => `(tactic| (apply_assumption; decide))

theorem expandSpeedAlt5_typed (pm : PMsg) (m : Msg) (hd : DestsOK pm) (h : ValsOK pm.layout m.vals) :
    ValsOK pm.layout (expandSpeedAlt5 pm m).vals := by
  unfold expandSpeedAlt5
  exact copyIfValid_typed pm _ _ _ _ (hd _ (by decide)) <| copyIfValid_typed pm _ _ _ _ (hd _ (by decide)) <|
    copyIfValid_typed pm _ _ _ _ (hd _ (by decide)) <| copyIfValid_typed pm _ _ _ _ (hd _ (by decide)) <|
    copyIfValid_typed pm _ _ _ _ (hd _ (by decide)) h

theorem expandSegmentLap_typed (pm : PMsg) (m : Msg) (hd : DestsOK pm) (h : ValsOK pm.layout m.vals) :
    ValsOK pm.layout (expandSegmentLap pm m).vals := by
  unfold expandSegmentLap
  exact copyIfValid_typed pm _ _ _ _ (hd _ (by decide)) <| copyIfValid_typed pm _ _ _ _ (hd _ (by decide)) <|
    copyIfValid_typed pm _ _ _ _ (hd _ (by decide)) h

theorem expandCsd_typed (pm : PMsg) (m : Msg) (g : Globals) (hd : DestsOK pm) (h : ValsOK pm.layout m.vals) :
    ValsOK pm.layout (expandCsd pm m g).1.vals := by
  unfold expandCsd
  split
  · rename_i ci si di hc hs hdi
    split
    · split
      · exact setU_typed pm _ "Distance" di _ hdi (hd _ (by decide)) (setU_typed pm _ "Speed" si _ hs (hd _ (by decide)) h)
      · exact h
    · exact h
  · exact h

theorem expandCycles_typed (pm : PMsg) (m : Msg) (g : Globals) (hd : DestsOK pm) (h : ValsOK pm.layout m.vals) :
    ValsOK pm.layout (expandCycles pm m g).1.vals := by
  unfold expandCycles
  split
  · rename_i ci ti hc hti
    split
    · split
      · exact setU_typed pm _ "TotalCycles" ti _ hti (hd _ (by decide)) h
      · exact h
    · exact h
  · exact h

theorem expandPower_typed (pm : PMsg) (m : Msg) (g : Globals) (hd : DestsOK pm) (h : ValsOK pm.layout m.vals) :
    ValsOK pm.layout (expandPower pm m g).1.vals := by
  unfold expandPower
  split
  · rename_i ci ai hc hai
    split
    · split
      · exact setU_typed pm _ "AccumulatedPower" ai _ hai (hd _ (by decide)) h
      · exact h
    · exact h
  · exact h

theorem expandRecord_typed (pm : PMsg) (m : Msg) (g : Globals) (hd : DestsOK pm) (h : ValsOK pm.layout m.vals) :
    ValsOK pm.layout (expandRecord pm m g).1.vals := by
  unfold expandRecord
  exact expandPower_typed pm _ _ hd <| expandCycles_typed pm _ _ hd <| expandCsd_typed pm _ _ hd <|
    copyIfValid_typed pm _ _ _ _ (hd _ (by decide)) <| copyIfValid_typed pm _ _ _ _ (hd _ (by decide)) h

theorem expandEventData_typed (pm : PMsg) (m : Msg) (d ev : Nat) (hd : DestsOK pm) (h : ValsOK pm.layout m.vals) :
    ValsOK pm.layout (expandEventData pm m d ev).vals := by
  unfold expandEventData
  split
  · split
    · split
      · rename_i s o hs ho
        exact setU_typed pm _ "OpponentScore" o _ ho (hd _ (by decide)) (setU_typed pm _ "Score" s _ hs (hd _ (by decide)) h)
      · exact h
    · split
      · split
        · rename_i a b c e ha hb hc he
          exact setU_typed pm _ "FrontGear" e _ he (hd _ (by decide)) <|
            setU_typed pm _ "FrontGearNum" c _ hc (hd _ (by decide)) <|
            setU_typed pm _ "RearGear" b _ hb (hd _ (by decide)) <|
            setU_typed pm _ "RearGearNum" a _ ha (hd _ (by decide)) h
        · exact h
      · exact h
  · exact h

theorem expandEvent_typed (pm : PMsg) (m : Msg) (hd : DestsOK pm) (h : ValsOK pm.layout m.vals) :
    ValsOK pm.layout (expandEvent pm m).vals := by
  unfold expandEvent
  have h1 := copyIfValid_typed pm m "Data16" "Data" 0xFFFF (hd _ (by decide)) h
  dsimp only
  split
  · split
    · exact expandEventData_typed pm _ _ _ hd h1
    · exact h1
  · exact h1

end Fit

namespace Fit

theorem copyIfValid_num (pm : PMsg) (m : Msg) (src dst : String) (inv : Nat) : (copyIfValid pm m src dst inv).num = m.num := by
  unfold copyIfValid
  repeat' split
  all_goals rfl

theorem expandCsd_num (pm : PMsg) (m : Msg) (g : Globals) : (expandCsd pm m g).1.num = m.num := by
  unfold expandCsd
  split
  · split
    · split <;> rfl
    · rfl
  · rfl

theorem expandCycles_num (pm : PMsg) (m : Msg) (g : Globals) : (expandCycles pm m g).1.num = m.num := by
  unfold expandCycles
  split
  · split
    · split <;> rfl
    · rfl
  · rfl

theorem expandPower_num (pm : PMsg) (m : Msg) (g : Globals) : (expandPower pm m g).1.num = m.num := by
  unfold expandPower
  split
  · split
    · split <;> rfl
    · rfl
  · rfl

theorem expandRecord_num (pm : PMsg) (m : Msg) (g : Globals) : (expandRecord pm m g).1.num = m.num := by
  unfold expandRecord
  simp only [expandPower_num, expandCycles_num, expandCsd_num, copyIfValid_num]

theorem expandEventData_num (pm : PMsg) (m : Msg) (d ev : Nat) : (expandEventData pm m d ev).num = m.num := by
  unfold expandEventData
  split
  · split
    · split <;> rfl
    · split
      · split <;> rfl
      · rfl
  · rfl

theorem expandEvent_num (pm : PMsg) (m : Msg) : (expandEvent pm m).num = m.num := by
  unfold expandEvent
  dsimp only
  split
  · split
    · rw [expandEventData_num, copyIfValid_num]
    · exact copyIfValid_num ..
  · exact copyIfValid_num ..

theorem expand_num (P : Profile) (m : Msg) (g : Globals) : (expand P m g).1.num = m.num := by
  unfold expand
  split
  · rfl
  · split
    · exact expandRecord_num ..
    · split
      · unfold expandSpeedAlt5
        simp only [copyIfValid_num]
      · split
        · unfold expandSegmentLap
          simp only [copyIfValid_num]
        · split
          · exact expandEvent_num ..
          · rfl

/-- a message of a known type, all of whose values have the Go types of its struct fields -/
def MsgOK (P : Profile) (m : Msg) : Prop :=
  ∃ pm, P.msg? m.num = some pm ∧ pm.known = true ∧ ValsOK pm.layout m.vals

/-- **`expandComponents` keeps a message well typed** -/
theorem expand_typed (P : Profile) (hx : xokB P = true) (m : Msg) (g : Globals) (h : MsgOK P m) :
    MsgOK P (expand P m g).1 := by
  obtain ⟨pm, hpm, hk, hv⟩ := h
  refine ⟨pm, by rw [expand_num]; exact hpm, hk, ?_⟩
  unfold expand
  rw [hpm]
  simp only
  have hd : m.num ∈ expandSet → DestsOK pm := fun hn name hname => xokB_dest P hx m.num hn pm hpm name hname
  split
  · rename_i h1
    exact expandRecord_typed pm m g (hd (by rw [h1]; decide)) hv
  · split
    · rename_i h2
      exact expandSpeedAlt5_typed pm m (hd (by rcases h2 with h2 | h2 <;> (rw [h2]; decide))) hv
    · split
      · rename_i h3
        exact expandSegmentLap_typed pm m (hd (by rw [h3]; decide)) hv
      · split
        · rename_i h4
          exact expandEvent_typed pm m (hd (by rw [h4]; decide)) hv
        · exact hv

end Fit
