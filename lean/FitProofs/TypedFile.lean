import FitProofs.TypedExpand
import FitProofs.NoPanic
/-
  Well-typed Files: the constructor's all-invalid message is well typed, and `File.add` keeps a
  File well typed and every container slot homogeneous.
-/
namespace Fit

theorem invalidOfType_ok (t : Nat) (k : SlotKind) (v : Val) (hk : slotOfType t = some k) (hv : invalidOfType t = some v) :
    ValOK k v = true := by
  unfold slotOfType at hk
  unfold invalidOfType at hv
  cases hkind : tcKind t with
  | native =>
    rw [hkind] at hk hv
    simp only at hk hv
    cases hs : scOfBase (tcBase t) with
    | none => rw [hs] at hk; cases hk
    | some sc =>
      rw [hs] at hk hv
      simp only at hk hv
      cases hk
      cases sc <;> (simp only at hv; cases hv; split <;> rfl)
  | timeUTC => rw [hkind] at hk hv; simp only at hk hv; split at hk <;> cases hk; cases hv; rfl
  | timeLocal => rw [hkind] at hk hv; simp only at hk hv; split at hk <;> cases hk; cases hv; rfl
  | lat => rw [hkind] at hk hv; simp only at hk hv; split at hk <;> cases hk; cases hv; rfl
  | lng => rw [hkind] at hk hv; simp only at hk hv; split at hk <;> cases hk; cases hv; rfl
  | unknown n => rw [hkind] at hk; cases hk

theorem fieldWF_invalid (pm : PMsg) (pf : PField) (h : fieldWF pm pf = true) :
    ∃ v, pm.invalid[pf.sindex]? = some v ∧ invalidOfType pf.tcode = some v := by
  unfold fieldWF at h
  simp only [Bool.and_eq_true, decide_eq_true_eq, Bool.not_eq_true'] at h
  obtain ⟨⟨⟨_, hinv⟩, _⟩, _⟩ := h
  split at hinv
  · rename_i v v' h1 h2
    have : v = v' := by simpa using hinv
    subst this
    exact ⟨v, h1, h2⟩
  · cases hinv

theorem msgWF_known (pm : PMsg) (h : msgWF pm = true) (hk : pm.known = true) :
    pm.hasType = true ∧ pm.hasCtor = true ∧ pm.invalid.length = pm.layout.length ∧
    ∀ i, i < pm.layout.length → ∃ pf ∈ pm.fields, pf.sindex = i := by
  have hb := msgWF_bounds pm h
  unfold msgWF at h
  simp only [Bool.and_eq_true, decide_eq_true_eq, Bool.or_eq_true, Bool.not_eq_true', List.all_eq_true, List.any_eq_true,
    List.mem_range, beq_iff_eq] at h
  obtain ⟨⟨⟨⟨⟨⟨⟨⟨⟨_, hkn⟩, _⟩, _⟩, _⟩, _⟩, _⟩, _⟩, _⟩, hcov⟩ := h
  have h2 : pm.hasType = true ∧ pm.hasCtor = true := by
    rcases hkn with h | h
    · rw [hk] at h; cases h
    · exact ⟨h.1.2, h.2⟩
  refine ⟨h2.1, h2.2, hb.2.2.1 h2.1 h2.2, ?_⟩
  rcases hcov with h | h
  · rw [hk] at h; cases h
  · exact h

/-- the constructor's all-invalid message is well typed -/
theorem invalid_typed (pm : PMsg) (h : msgWF pm = true) (hk : pm.known = true) : ValsOK pm.layout pm.invalid := by
  obtain ⟨_, _, hlen, hcov⟩ := msgWF_known pm h hk
  refine ⟨hlen, ?_⟩
  intro i k v hki hvi
  have hi : i < pm.layout.length := (List.getElem?_eq_some_iff.mp hki).1
  obtain ⟨pf, hpf, hsi⟩ := hcov i hi
  have hw := (msgWF_bounds pm h).2.2.2 pf hpf
  obtain ⟨k', hk1, hk2⟩ := (fieldWF_facts pm pf hw).slot
  obtain ⟨v', hv1, hv2⟩ := fieldWF_invalid pm pf hw
  rw [hsi] at hk1 hv1
  rw [hki] at hk1
  rw [hvi] at hv1
  cases hk1
  cases hv1
  exact invalidOfType_ok pf.tcode k v hk2 hv2

/-! ### well-typed Files -/

/-- every message of every slot is well typed and of the slot's element type -/
def SlotsOK (P : Profile) (c : Container) (slots : List (List Msg)) : Prop :=
  ∀ (i : Nat) (ms : List Msg), slots[i]? = some ms → ∀ m ∈ ms, MsgOK P m ∧ m.num = (c.slots.getD i default).msg

/-- what `decodeHeader` accepts and `Encode` needs of a header: 12 or 14 bytes, the ".FIT" tag, a
    supported protocol version -/
def HdrLegal (h : Header) : Prop :=
  (h.size = headerSizeNoCRC ∨ h.size = headerSizeCRC) ∧ h.dtype = fitTag ∧ h.proto < 256 ∧ h.proto / 16 ≤ protoMajorMax

structure FileTyped (P : Profile) (f : FileSt) : Prop where
  fid : MsgOK P f.fileId ∧ f.fileId.num = mnFileId
  creator : ∀ m, f.creator = some m → MsgOK P m ∧ m.num = mnFileCreator
  tscorr : ∀ m, f.tscorr = some m → MsgOK P m ∧ m.num = mnTimestampCorrelation
  slots : ∀ i, f.cidx = some i → SlotsOK P (P.containers.getD i default) f.slots
  /-- the attached container is the one the file type in file_id selects -/
  ctype : ∀ i, f.cidx = some i → P.initAns (fileTypeOf f) = .container i
  /-- the header is one `decodeHeader` accepted -/
  hdr : HdrLegal f.hdr

/-- the file_id struct has at least one field (its first field is the file type) -/
def fidLayoutB (P : Profile) : Bool :=
  match P.msg? mnFileId with
  | some pm => !pm.layout.isEmpty
  | none => true

theorem fid_vals_ne (P : Profile) (hfl : fidLayoutB P = true) (m : Msg) (hm : MsgOK P m) (hn : m.num = mnFileId) :
    ∃ v rest, m.vals = v :: rest := by
  obtain ⟨pm, hpm, _, hv⟩ := hm
  rw [hn] at hpm
  unfold fidLayoutB at hfl
  rw [hpm] at hfl
  simp only at hfl
  cases hvals : m.vals with
  | nil =>
    have := hv.1
    rw [hvals] at this
    cases hl : pm.layout with
    | nil => rw [hl] at hfl; cases hfl
    | cons a b => rw [hl] at this; cases this
  | cons v rest => exact ⟨v, rest, rfl⟩

theorem slotFor_msg (c : Container) (n i : Nat) (h : slotFor c n = some i) : (c.slots.getD i default).msg = n := by
  unfold slotFor at h
  simp only at h
  split at h
  · rename_i hlt
    cases h
    have := List.findIdx_getElem (w := hlt)
    rw [List.getD_eq_getElem?_getD, List.getElem?_eq_getElem hlt]
    simpa using this
  · cases h

theorem SlotsOK.add (P : Profile) (c : Container) (slots : List (List Msg)) (h : SlotsOK P c slots) (i : Nat) (m : Msg)
    (hm : MsgOK P m) (hn : m.num = (c.slots.getD i default).msg) (many : Bool) :
    SlotsOK P c (setAt slots i (if many then slots.getD i [] ++ [m] else [m])) := by
  intro j ms hj x hx
  by_cases e : i = j
  · subst e
    by_cases hlt : i < slots.length
    · rw [getElem?_setAt_same _ _ _ hlt] at hj
      cases hj
      cases many with
      | true =>
        simp only [↓reduceIte, List.mem_append, List.mem_singleton] at hx
        rcases hx with hx | hx
        · have hs : slots[i]? = some (slots.getD i []) := by
            rw [List.getD_eq_getElem?_getD, List.getElem?_eq_getElem hlt]; rfl
          exact h i _ hs x hx
        · subst hx; exact ⟨hm, hn⟩
      | false =>
        simp only [Bool.false_eq_true, ↓reduceIte, List.mem_singleton] at hx
        subst hx; exact ⟨hm, hn⟩
    · have : (setAt slots i (if many then slots.getD i [] ++ [m] else [m]))[i]? = none := by
        apply List.getElem?_eq_none
        rw [length_setAt]; omega
      rw [this] at hj; cases hj
  · rw [getElem?_setAt_other _ _ _ _ e] at hj
    exact h j ms hj x hx

/-- **`File.add` keeps a File well typed** -/
theorem add_typed (P : Profile) (hx : xokB P = true) (hfl : fidLayoutB P = true) (f : FileSt) (m : Msg) (g : Globals) (f' : FileSt) (g' : Globals)
    (hf : FileTyped P f) (hm : MsgOK P m) (h : f.add P m g = some (f', g')) : FileTyped P f' := by
  unfold FileSt.add at h
  split at h
  · -- file_id: the first value (the file type) is kept once the container is attached
    rename_i hnum
    injection h with h
    injection h with h1 _
    subst h1
    obtain ⟨mv0, mrest0, hmv0⟩ := fid_vals_ne P hfl m hm hnum
    obtain ⟨t0, trest0, hfv0⟩ := fid_vals_ne P hfl f.fileId hf.fid.1 hf.fid.2
    refine ⟨?_, hf.creator, hf.tscorr, hf.slots, ?_, hf.hdr⟩
    rotate_left
    · intro i hi
      simp only at hi
      have := hf.ctype i hi
      simp only [fileTypeOf, hi, hmv0, hfv0] at this ⊢
      cases t0 <;> exact this
    split
    · rename_i ci mv mrest t trest hc hmv hfv
      refine ⟨?_, hnum⟩
      obtain ⟨pm, hpm, hk, hv⟩ := hm
      obtain ⟨pm0, hpm0, _, hv0⟩ := hf.fid.1
      have : pm0 = pm := by
        rw [hf.fid.2] at hpm0
        rw [hnum] at hpm
        rw [hpm0] at hpm
        cases hpm; rfl
      subst this
      refine ⟨pm0, hpm, hk, ?_⟩
      have hset : (t :: mrest) = setAt m.vals 0 t := by rw [hmv]; rfl
      show ValsOK pm0.layout (t :: mrest)
      rw [hset]
      cases hl : pm0.layout[0]? with
      | none =>
        -- no struct fields at all: then m.vals would be empty
        have h1 := hv.1
        rw [hmv] at h1
        have h2 : pm0.layout.length = 0 := by
          cases hll : pm0.layout with
          | nil => rfl
          | cons a b => rw [hll] at hl; cases hl
        rw [h2] at h1
        cases h1
      | some k0 =>
        have ht : f.fileId.vals[0]? = some t := by rw [hfv]; rfl
        exact hv.set 0 k0 t hl (hv0.2 0 k0 t hl ht)
    · exact ⟨hm, hnum⟩
  · split at h
    · rename_i hnc
      injection h with h; injection h with h1 _; subst h1
      exact ⟨hf.fid, fun x hx => by cases hx; exact ⟨hm, hnc⟩, hf.tscorr, hf.slots, hf.ctype, hf.hdr⟩
    · split at h
      · rename_i hnt
        injection h with h; injection h with h1 _; subst h1
        exact ⟨hf.fid, hf.creator, fun x hx => by cases hx; exact ⟨hm, hnt⟩, hf.slots, hf.ctype, hf.hdr⟩
      · split at h
        · injection h with h; injection h with h1 _; subst h1
          exact ⟨hf.fid, hf.creator, hf.tscorr, hf.slots, hf.ctype, hf.hdr⟩
        · split at h
          · injection h with h; injection h with h1 _; subst h1
            exact ⟨hf.fid, hf.creator, hf.tscorr, hf.slots, hf.ctype, hf.hdr⟩
          · cases hc : f.cidx with
            | none => rw [hc] at h; cases h
            | some ci =>
              rw [hc] at h
              simp only at h
              injection h with h; injection h with h1 _; subst h1
              refine ⟨hf.fid, hf.creator, hf.tscorr, ?_, ?_, hf.hdr⟩
              rotate_left
              · intro i hi
                simp only at hi
                cases hi
                exact hf.ctype ci hc
              intro i hi
              simp only at hi
              cases hi
              have hso := hf.slots ci hc
              show SlotsOK P (P.containers.getD ci default) (containerAdd P (P.containers.getD ci default) f.slots m g).1
              unfold containerAdd
              cases hs : slotFor (P.containers.getD ci default) m.num with
              | none => exact hso
              | some si =>
                simp only
                have hmsg := slotFor_msg _ _ _ hs
                have hm' : MsgOK P (if expandSet.contains m.num = true then expand P m g else (m, g)).1 ∧
                    (if expandSet.contains m.num = true then expand P m g else (m, g)).1.num =
                      ((P.containers.getD ci default).slots.getD si default).msg := by
                  split
                  · exact ⟨expand_typed P hx m g hm, by rw [expand_num, hmsg]⟩
                  · exact ⟨hm, hmsg.symm⟩
                exact hso.add P _ _ si _ hm'.1 hm'.2 _

end Fit
