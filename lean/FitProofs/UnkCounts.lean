import FitProofs.Framing
import FitProofs.WholeFile
/-
  C16: what the record machine counts. Every data record of a message number the profile does not
  know bumps that number once; every field of a record of a known message whose field number the
  profile does not list bumps (message, field) once; nothing else touches the two counters.
-/
namespace Fit

/-- the (message, field) keys one data record of a known message counts: one per field read whose
    number the profile does not list -/
def unkFRec (P : Profile) (dm : DefMsg) : List FieldDef → List Bytes → List (Nat × Nat)
  | fd :: fds, _ :: raws =>
    (if (P.getField dm.global fd.num).isNone then [(dm.global, fd.num)] else []) ++ unkFRec P dm fds raws
  | _, _ => []

def bumpAll {κ} [BEq κ] (ks : List κ) (l : List (κ × Nat)) : List (κ × Nat) := ks.foldl (fun acc k => bump k acc) l

theorem bumpAll_append {κ} [BEq κ] (a b : List κ) (l : List (κ × Nat)) : bumpAll (a ++ b) l = bumpAll b (bumpAll a l) := by
  simp [bumpAll, List.foldl_append]

theorem stepFields_unk (P : Profile) (dm : DefMsg) (known : Bool) (fds : List FieldDef) (raws : List Bytes)
    (m : Option Msg) (st : DecSt) (m' : Option Msg) (st' : DecSt)
    (h : stepFields P dm known fds raws m st = .ok m' st') :
    st'.unkM = st.unkM ∧ st'.defs = st.defs ∧
    st'.unkF = (if known then bumpAll (unkFRec P dm fds raws) st.unkF else st.unkF) := by
  induction fds generalizing raws m st with
  | nil => simp only [stepFields] at h; cases h; cases known <;> simp [unkFRec, bumpAll]
  | cons fd fds ih =>
    cases raws with
    | nil => simp only [stepFields] at h; cases h; cases known <;> simp [unkFRec, bumpAll]
    | cons raw raws =>
      unfold stepFields at h
      dsimp only at h
      split at h
      · cases h
      · cases h
      · obtain ⟨e1, e2, e3⟩ := ih raws _ _ h
        refine ⟨?_, ?_, ?_⟩
        · rw [e1]; simp only [DecSt.setTs]; split <;> rfl
        · rw [e2]; simp only [DecSt.setTs]; split <;> rfl
        · rw [e3]
          cases known with
          | false => simp only [Bool.false_eq_true, and_false, ↓reduceIte, DecSt.setTs]
          | true =>
            simp only [and_true, ↓reduceIte, DecSt.setTs, unkFRec]
            rw [bumpAll_append]
            split
            · simp [bumpAll]
            · simp [bumpAll]

theorem stepDev_unk (ds : List DevDesc) (raws : List Bytes) (st : DecSt) :
    (stepDev ds raws st).unkM = st.unkM ∧ (stepDev ds raws st).unkF = st.unkF ∧ (stepDev ds raws st).defs = st.defs := by
  induction ds generalizing raws st with
  | nil => simp [stepDev]
  | cons d ds ih =>
    cases raws with
    | nil => simp [stepDev]
    | cons raw raws =>
      unfold stepDev
      obtain ⟨a, b, c⟩ := ih raws { st with n := st.n + d.size, crc := Crc.update st.crc raw }
      exact ⟨a, b, c⟩

theorem addMsg_unk (P : Profile) (m : Option Msg) (st st' : DecSt) (h : addMsg P m st = some st') :
    st'.unkM = st.unkM ∧ st'.unkF = st.unkF ∧ st'.defs = st.defs := by
  unfold addMsg at h
  split at h
  · cases h; exact ⟨rfl, rfl, rfl⟩
  · split at h
    · cases h
    · split at h
      · cases h
      · cases h; exact ⟨rfl, rfl, rfl⟩

theorem dataPre_unk (P : Profile) (hb : Nat) (compressed : Bool) (st : DecSt) (dm : DefMsg) (m : Option Msg)
    (st' : DecSt) (h : dataPre P hb compressed st = .go dm m st') :
    st'.unkF = st.unkF ∧ st'.defs = st.defs ∧
    st'.unkM = (if P.known dm.global then st.unkM else bump dm.global st.unkM) := by
  have hlook := dataPre_go P hb compressed st dm m st' h
  unfold dataPre at h
  dsimp only at h
  rw [hlook] at h
  dsimp only at h
  cases hk : P.known dm.global <;> rw [hk] at h <;> simp only [Bool.not_true, Bool.not_false, Bool.false_eq_true, ↓reduceIte,
    false_and, true_and] at h
  all_goals (repeat' (split at h))
  all_goals first
    | (cases h; exact ⟨rfl, rfl, rfl⟩)
    | (cases h; done)

/-- the local message type a data item addresses -/
def itemLocal : Item → Option Nat
  | .defn _ _ => none
  | .data l _ _ => some (l % 16)
  | .cdata l off _ _ => some ((0x80 + l * 32 + off) / 32 % 4)

def itemRaws : Item → List Bytes
  | .defn _ _ => []
  | .data _ fs _ => fs
  | .cdata _ _ fs _ => fs

/-- the message number one item counts as unknown: a data record whose live definition names a
    message number the profile does not know -/
def unkMOf (P : Profile) (defs : List (Option DefMsg)) (it : Item) : List Nat :=
  match itemLocal it with
  | none => []
  | some lt =>
    match defs.getD lt none with
    | some dm => if P.known dm.global then [] else [dm.global]
    | none => []

/-- the (message, field) pairs one item counts as unknown fields -/
def unkFOf (P : Profile) (defs : List (Option DefMsg)) (it : Item) : List (Nat × Nat) :=
  match itemLocal it with
  | none => []
  | some lt =>
    match defs.getD lt none with
    | some dm => if P.known dm.global then unkFRec P dm dm.fields (itemRaws it) else []
    | none => []

theorem stepData_unk (P : Profile) (hb : Nat) (c : Bool) (fs dev : List Bytes) (st st' : DecSt)
    (h : stepData P hb c fs dev st = .ok st') :
    ∃ dm, st.defs.getD (if c then hb / 32 % 4 else hb % 16) none = some dm ∧ st'.defs = st.defs ∧
      st'.unkM = (if P.known dm.global then st.unkM else bump dm.global st.unkM) ∧
      st'.unkF = (if P.known dm.global then bumpAll (unkFRec P dm dm.fields fs) st.unkF else st.unkF) := by
  rw [stepData_pre] at h
  cases hp : dataPre P hb c st with
  | stop p st1 => rw [hp] at h; cases p <;> cases h
  | go dm m st1 =>
    rw [hp] at h
    simp only at h
    cases hsf : stepFields P dm (P.known dm.global) dm.fields fs m st1 with
    | fail o => rw [hsf] at h; cases h
    | ok m2 st2 =>
      rw [hsf] at h
      simp only at h
      cases ha : addMsg P m2 (stepDev dm.dev dev st2) with
      | none => rw [ha] at h; cases h
      | some st3 =>
        rw [ha] at h
        cases h
        obtain ⟨a1, a2, a3⟩ := dataPre_unk P hb c st dm m st1 hp
        obtain ⟨b1, b2, b3⟩ := stepFields_unk P dm _ dm.fields fs m st1 m2 st2 hsf
        obtain ⟨c1, c2, c3⟩ := stepDev_unk dm.dev dev st2
        obtain ⟨d1, d2, d3⟩ := addMsg_unk P m2 _ st' ha
        refine ⟨dm, dataPre_go P hb c st dm m st1 hp, ?_, ?_, ?_⟩
        · rw [d3, c3, b2, a2]
        · rw [d1, c1, b1, a3]
        · rw [d2, c2, b3, a1]

/-- one item: the counters grow by exactly what `unkMOf` / `unkFOf` say -/
theorem stepItem_unk (P : Profile) (st st' : DecSt) (it : Item) (h : stepItem P st it = .ok st') :
    st'.defs = defsAfter P st.defs it ∧
    st'.unkM = bumpAll (unkMOf P st.defs it) st.unkM ∧
    st'.unkF = bumpAll (unkFOf P st.defs it) st.unkF := by
  cases it with
  | defn d devBit =>
    unfold stepItem at h
    simp only at h
    split at h
    · cases h
    · split at h
      · cases h
      · rename_i h1 h2
        cases h
        refine ⟨?_, rfl, rfl⟩
        simp only [defsAfter, DecSt.eat]
        have hn : ¬ (d.global = mesgNumInvalid ∨ (!d.fields.all (validateFieldDef P d.global)) = true) := by
          intro hc
          rcases hc with hc | hc
          · exact h1 hc
          · exact h2 hc
        rw [if_neg hn]
  | data l fs dev =>
    simp only [stepItem] at h
    obtain ⟨dm, hd, e1, e2, e3⟩ := stepData_unk P l false fs dev _ st' h
    simp only [Bool.false_eq_true, ↓reduceIte, DecSt.eat] at hd e1 e2 e3
    refine ⟨by rw [e1]; rfl, ?_, ?_⟩
    · rw [e2]; simp only [unkMOf, itemLocal, hd]
      split <;> simp [bumpAll]
    · rw [e3]; simp only [unkFOf, itemLocal, itemRaws, hd]
      split <;> simp [bumpAll]
  | cdata l off fs dev =>
    simp only [stepItem] at h
    obtain ⟨dm, hd, e1, e2, e3⟩ := stepData_unk P _ true fs dev _ st' h
    simp only [↓reduceIte, DecSt.eat] at hd e1 e2 e3
    refine ⟨by rw [e1]; rfl, ?_, ?_⟩
    · rw [e2]; simp only [unkMOf, itemLocal, hd]
      split <;> simp [bumpAll]
    · rw [e3]; simp only [unkFOf, itemLocal, itemRaws, hd]
      split <;> simp [bumpAll]

/-- all unknown-message numbers / unknown-field pairs a list of items counts, definitions threaded -/
def unkMAll (P : Profile) : List (Option DefMsg) → List Item → List Nat
  | _, [] => []
  | defs, it :: its => unkMOf P defs it ++ unkMAll P (defsAfter P defs it) its

def unkFAll (P : Profile) : List (Option DefMsg) → List Item → List (Nat × Nat)
  | _, [] => []
  | defs, it :: its => unkFOf P defs it ++ unkFAll P (defsAfter P defs it) its

theorem stepItems_unk (P : Profile) (st st' : DecSt) (its : List Item) (h : stepItems P st its = .ok st') :
    st'.unkM = bumpAll (unkMAll P st.defs its) st.unkM ∧ st'.unkF = bumpAll (unkFAll P st.defs its) st.unkF := by
  induction its generalizing st with
  | nil => simp only [stepItems] at h; cases h; exact ⟨rfl, rfl⟩
  | cons it its ih =>
    unfold stepItems at h
    cases hs : stepItem P st it with
    | stop o => rw [hs] at h; cases h
    | ok st1 =>
      rw [hs] at h
      obtain ⟨d, m, f⟩ := stepItem_unk P st st1 it hs
      obtain ⟨m2, f2⟩ := ih st1 h
      refine ⟨?_, ?_⟩
      · rw [m2, d, m]; simp only [unkMAll, bumpAll_append]
      · rw [f2, d, f]; simp only [unkFAll, bumpAll_append]

end Fit

namespace Fit

/-- a whole record area: the counters of the state the record machine returns are exactly the counts
    of `unkMAll` / `unkFAll` from the empty definition table -/
theorem runItems_unk (P : Profile) (hdr : Header) (g : Globals) (its : List Item) (crc0 : BitVec 16) (st' : DecSt)
    (h : runItems P hdr g its crc0 = .ok st') :
    st'.unkM = bumpAll (unkMAll P (List.replicate 16 none) its) [] ∧
    st'.unkF = bumpAll (unkFAll P (List.replicate 16 none) its) [] := by
  unfold runItems at h
  simp only at h
  split at h
  · rename_i d r rest
    split at h
    · cases h
    · rename_i st1 h1
      split at h
      · cases h
      · rename_i st2 h2
        split at h
        · cases h
        · rename_i f hf
          split at h
          · cases h
          · rename_i f' hinit
            obtain ⟨d1, m1, f1⟩ := stepItem_unk P _ st1 d h1
            obtain ⟨d2, m2, f2⟩ := stepItem_unk P st1 st2 r h2
            obtain ⟨m3, f3⟩ := stepItems_unk P _ st' rest h
            simp only at m3 f3
            refine ⟨?_, ?_⟩
            · rw [m3, d2, m2, d1, m1]
              simp only [unkMAll, bumpAll_append]
              rfl
            · rw [f3, d2, f2, d1, f1]
              simp only [unkFAll, bumpAll_append]
              rfl
  · cases h

end Fit
