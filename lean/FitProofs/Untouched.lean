import FitProofs.MsgRoundtrip
/-
  C02: what the field loop leaves alone. One field either changes nothing of the message under
  construction or stores one value at the struct position of its profile entry; so every struct
  field no listed field number designates keeps what the constructor put there.
-/
namespace Fit

/-- one field of a data record: the message is unchanged, or exactly the struct position of the
    field's profile entry is overwritten -/
theorem applyField_shape (P : Profile) (dm : DefMsg) (known : Bool) (fd : FieldDef) (raw : Bytes) (msg : Msg) (ts : TsRef)
    (m' : Option Msg) (ts' : TsRef) (h : applyField P dm known fd raw (some msg) ts = .ok m' ts') :
    m' = some msg ∨ ∃ pf v, P.getField dm.global fd.num = some pf ∧
      m' = some { msg with vals := setAt msg.vals pf.sindex v } := by
  have keep : ∀ t, (FieldsRes.ok (some msg) t = .ok m' ts') → m' = some msg := by
    intro t e; cases e; rfl
  unfold applyField at h
  split at h
  · exact Or.inl (keep _ h)
  · rename_i pf hpf
    dsimp only at h
    generalize (if tcBase pf.tcode ≠ Base.string ∧ (!tcArray pf.tcode) = true ∧ tcKind pf.tcode ≠ Kind.native then
      padTmp dm.arch fd.btype raw fd.size (Base.size (tcBase pf.tcode)) else raw) = tmp at h
    split at h
    · exact Or.inl (keep _ h)
    · split at h
      · rename_i msg0 pm hm _
        cases hm
        split at h
        · cases h
        · rename_i k hk
          have store : ∀ (o : Option Val) (t : TsRef),
              (match o with
                | none => FieldsRes.ok (some msg) t
                | some v => FieldsRes.ok (some { msg with vals := setAt msg.vals pf.sindex v }) t) = .ok m' ts' →
              m' = some msg ∨ ∃ pf' v, P.getField dm.global fd.num = some pf' ∧ m' = some { msg with vals := setAt msg.vals pf'.sindex v } := by
            intro o t hh
            cases o with
            | none => exact Or.inl (keep _ hh)
            | some v => cases hh; exact Or.inr ⟨pf, v, hpf, rfl⟩
          split at h
          · split at h
            · exact store _ _ h
            · cases h
            · cases h
          · split at h
            · cases h
            · split at h
              · cases h
              · exact store _ _ h
          · split at h
            · cases h
            · split at h
              · cases h
              · exact store _ _ h
          · split at h
            · cases h
            · split at h
              · cases h
              · cases h; exact Or.inr ⟨pf, _, hpf, rfl⟩
          · split at h
            · cases h
            · split at h
              · cases h
              · cases h; exact Or.inr ⟨pf, _, hpf, rfl⟩
          · cases h
      · cases h

/-- the field loop leaves every struct position alone that no listed field's profile entry designates -/
theorem stepFields_untouched (P : Profile) (dm : DefMsg) (known : Bool) (fds : List FieldDef) (raws : List Bytes)
    (msg : Msg) (st : DecSt) (m' : Option Msg) (st' : DecSt)
    (h : stepFields P dm known fds raws (some msg) st = .ok m' st') (i : Nat)
    (hi : ∀ fd ∈ fds, ∀ pf, P.getField dm.global fd.num = some pf → pf.sindex ≠ i) :
    ∃ msg', m' = some msg' ∧ msg'.num = msg.num ∧ msg'.vals[i]? = msg.vals[i]? := by
  induction fds generalizing raws msg st with
  | nil => simp only [stepFields] at h; cases h; exact ⟨msg, rfl, rfl, rfl⟩
  | cons fd fds ih =>
    cases raws with
    | nil => simp only [stepFields] at h; cases h; exact ⟨msg, rfl, rfl, rfl⟩
    | cons raw raws =>
      unfold stepFields at h
      dsimp only at h
      split at h
      · cases h
      · cases h
      · rename_i m1 ts1 hap
        rcases applyField_shape P dm known fd raw msg _ m1 ts1 hap with e | ⟨pf, v, hpf, e⟩
        · subst e
          exact ih raws msg _ h (fun f hf => hi f (List.mem_cons_of_mem _ hf))
        · subst e
          obtain ⟨msg', h1, h2, h3⟩ := ih raws _ _ h (fun f hf => hi f (List.mem_cons_of_mem _ hf))
          refine ⟨msg', h1, h2, ?_⟩
          rw [h3]
          exact getElem?_setAt_other _ _ _ _ (hi fd (List.mem_cons_self ..) pf hpf)

end Fit
