import FitProofs.Framing
import FitProofs.CrcTrack
import FitProofs.ListLemmas
import FitProps.C14
import FitProofs.HdrKind
/-
  Whole-file framing: header, records and file CRC as a FIT writer lays them out
  (`frameBytes`), decoded by the byte-level decoder, against the item machine (`runItems`).
-/
namespace Fit
open Fit.Crc

/-- the decoder state after the header of a frame -/
def afterHeader (k : HdrKind) (g : Globals) (proto profile len : Nat) : DecSt :=
  { DecSt.init g with
    hdr := { size := k.size, proto := proto, profile := profile % 65536, dataSize := len % 4294967296, dtype := fitTag,
             crc := match k with
               | .withCrc => (checksum (hdr12 .withCrc proto profile len)).toNat
               | _ => 0 },
    crc := checksum (frameHdr k proto profile len) }

theorem lo_hi_leNat (c : BitVec 16) : leNat [lo c, hi c] = c.toNat := by
  have h1 : (lo c).toNat = c.toNat % 256 := by simp [lo, UInt8.toNat, BitVec.toNat_setWidth]
  have h2 : (hi c).toNat = c.toNat / 256 % 256 := by
    simp [hi, UInt8.toNat, BitVec.toNat_setWidth, BitVec.toNat_ushiftRight, Nat.shiftRight_eq_div_pow]
  simp only [leNat, h1, h2]
  have := c.isLt
  omega

/-- the header bytes after the size byte -/
def hdrTail (k : HdrKind) (proto profile len : Nat) : Bytes :=
  [u8 proto] ++ natLE 2 profile ++ natLE 4 len ++ fitTag ++ hdrExtra k proto profile len

theorem hdrTail_length (k : HdrKind) (proto profile len : Nat) : (hdrTail k proto profile len).length = k.size - 1 := by
  cases k <;> simp [hdrTail, hdrExtra, natLE_length, fitTag, HdrKind.size]

theorem frameHdr_split (k : HdrKind) (proto profile len : Nat) :
    frameHdr k proto profile len = u8 k.size :: hdrTail k proto profile len := by
  simp [frameHdr, hdr12, hdrTail]

/-- `headerCheck` accepts the header a writer lays out -/
theorem headerCheck_frame (k : HdrKind) (g : Globals) (proto profile len : Nat) (hp : proto < 256)
    (hp2 : proto / 16 ≤ protoMajorMax) :
    headerCheck { DecSt.init g with hdr := { (DecSt.init g).hdr with size := k.size } } [u8 k.size]
      (hdrTail k proto profile len) = .ok (afterHeader k g proto profile len) := by
  have hcrc : update (update (0#16) [u8 k.size]) (hdrTail k proto profile len) = checksum (frameHdr k proto profile len) := by
    rw [← update_append, frameHdr_split]
    rfl
  obtain ⟨a1, a2, hA⟩ : ∃ a1 a2, natLE 2 profile = [a1, a2] := ⟨_, _, rfl⟩
  obtain ⟨b1, b2, b3, b4, hB⟩ : ∃ b1 b2 b3 b4, natLE 4 len = [b1, b2, b3, b4] := ⟨_, _, _, _, rfl⟩
  have hpA : leNat [a1, a2] = profile % 65536 := by rw [← hA, leNat_natLE]
  have hpB : leNat [b1, b2, b3, b4] = len % 4294967296 := by rw [← hB, leNat_natLE]
  have hpt : (u8 proto).toNat = proto := by simp [u8, Nat.mod_eq_of_lt hp]
  have hnot : ¬ proto / 16 > protoMajorMax := by omega
  have hcrc0 : (DecSt.init g).crc = 0#16 := rfl
  cases k with
  | noCrc =>
    unfold afterHeader
    rw [← hcrc]
    unfold hdrTail hdrExtra headerCheck
    rw [hA, hB]
    simp only [fitTag, List.cons_append, List.nil_append, List.append_nil, List.drop_succ_cons, List.drop_zero,
      List.take_succ_cons, List.take_zero, List.headD_cons, HdrKind.size]
    rw [hpt, if_neg hnot]
    simp only [ne_eq, not_true_eq_false, ↓reduceIte, hpA, hpB]
    have h12 : (u8 12).toNat = headerSizeNoCRC := by decide
    rw [if_pos h12, hcrc0]
    rfl
  | zeroCrc =>
    unfold afterHeader
    rw [← hcrc]
    unfold hdrTail hdrExtra headerCheck
    rw [hA, hB]
    simp only [fitTag, List.cons_append, List.nil_append, List.drop_succ_cons, List.drop_zero,
      List.take_succ_cons, List.take_zero, List.headD_cons, HdrKind.size]
    rw [hpt, if_neg hnot]
    simp only [ne_eq, not_true_eq_false, ↓reduceIte, hpA, hpB]
    have h14 : ¬ ((u8 14).toNat = headerSizeNoCRC) := by decide
    rw [if_neg h14, hcrc0]
    have hz : leNat [0, 0] = 0 := by decide
    rw [hz]
    simp only [↓reduceIte]
  | withCrc =>
    have hres : checksum (frameHdr .withCrc proto profile len) = 0#16 := by
      unfold frameHdr hdrExtra
      exact Props.C14.residue _
    rw [← hcrc] at hres
    unfold afterHeader
    rw [← hcrc]
    generalize hcv : checksum (hdr12 .withCrc proto profile len) = hc at hres ⊢
    have hcn : leNat [lo hc, hi hc] = hc.toNat := lo_hi_leNat hc
    unfold hdrTail hdrExtra headerCheck at *
    rw [hcv] at hres ⊢
    rw [hA, hB] at hres ⊢
    simp only [fitTag, List.cons_append, List.nil_append, List.drop_succ_cons, List.drop_zero,
      List.take_succ_cons, List.take_zero, List.headD_cons, HdrKind.size] at hres ⊢
    rw [hpt, if_neg hnot]
    simp only [ne_eq, not_true_eq_false, ↓reduceIte, hpA, hpB, hcn]
    have h14 : ¬ ((u8 14).toNat = headerSizeNoCRC) := by decide
    rw [if_neg h14, hcrc0, hres]
    simp only [not_true_eq_false, ↓reduceIte]
    split <;> rfl

end Fit

namespace Fit
open Fit.Crc

/-- one data record with an arbitrary continuation: fields, developer fields, then `cont` -/
theorem run_parseData_gen (P : Profile) (hb : Nat) (compressed : Bool) (limit : Nat) (cont : Option Msg → DecSt → DP)
    (st : DecSt) (fields dev : List Bytes) (n : Nat) (s : SpecSt) (tail : Bytes)
    (hfit : ∀ dm, st.defs.getD (if compressed then (hb / 32) % 4 else hb % 16) none = some dm →
      FieldsFit dm.fields fields ∧ DevFit dm.dev dev)
    (hs : s.rest = (fields.flatten ++ dev.flatten) ++ tail)
    (hl : n + (fields.flatten ++ dev.flatten).length ≤ limit) :
    match dataPre P hb compressed st with
    | .stop p st' => (runSpecD limit (parseData P hb compressed st cont) n s).1 =
        .inl ⟨if p then none else some .other, st'⟩
    | .go dm m st1 =>
      match stepFields P dm (P.known dm.global) dm.fields fields m st1 with
      | .fail o => (runSpecD limit (parseData P hb compressed st cont) n s).1 = .inl (exitOf o)
      | .ok m2 st2 =>
        runSpecD limit (parseData P hb compressed st cont) n s =
          runSpecD limit (cont m2 (stepDev dm.dev dev st2)) (n + (fields.flatten ++ dev.flatten).length)
            { s with rest := tail, taken := s.taken + (fields.flatten ++ dev.flatten).length } := by
  rw [parseData_pre]
  cases hp : dataPre P hb compressed st with
  | stop p st' =>
    cases p <;> simp only [runSpecD, dfail, dpanic] <;> rfl
  | go dm m st1 =>
    obtain ⟨hf, hd⟩ := hfit dm (dataPre_go P hb compressed st dm m st1 hp)
    simp only
    simp only [List.append_assoc, List.length_append] at hs hl
    have h1 := run_parseFields P dm (P.known dm.global) limit
      (fun m st => skipDev dm.dev st fun st => cont m st)
      dm.fields fields hf m st1 n s (dev.flatten ++ tail) hs (by omega)
    generalize stepFields P dm (P.known dm.global) dm.fields fields m st1 = r at h1 ⊢
    cases r with
    | fail o => exact h1
    | ok m2 st2 =>
      simp only at h1 ⊢
      rw [h1, run_skipDev limit _ dm.dev dev hd st2 _ _ tail rfl (by omega)]
      simp only [List.length_append, Nat.add_assoc]

end Fit

namespace Fit
open Fit.Crc

theorem applyField_num (P : Profile) (dm : DefMsg) (known : Bool) (fd : FieldDef) (raw : Bytes) (msg : Msg) (ts : TsRef)
    (m' : Option Msg) (ts' : TsRef) (h : applyField P dm known fd raw (some msg) ts = .ok m' ts') :
    ∃ msg', m' = some msg' ∧ msg'.num = msg.num := by
  unfold applyField at h
  repeat' (split at h)
  all_goals try (dsimp only at h)
  repeat' (split at h)
  all_goals try (dsimp only at h)
  repeat' (split at h)
  all_goals first
    | (cases h; exact ⟨_, rfl, rfl⟩)
    | (cases h; done)
    | (injection ‹some msg = some _› with e; subst e; cases h; exact ⟨_, rfl, rfl⟩)

end Fit

namespace Fit
open Fit.Crc

theorem stepFields_num (P : Profile) (dm : DefMsg) (known : Bool) (fds : List FieldDef) (raws : List Bytes)
    (msg : Msg) (st : DecSt) (m2 : Option Msg) (st2 : DecSt)
    (h : stepFields P dm known fds raws (some msg) st = .ok m2 st2) :
    ∃ msg2, m2 = some msg2 ∧ msg2.num = msg.num := by
  induction fds generalizing raws msg st with
  | nil => simp only [stepFields] at h; cases h; exact ⟨msg, rfl, rfl⟩
  | cons fd fds ih =>
    cases raws with
    | nil => simp only [stepFields] at h; cases h; exact ⟨msg, rfl, rfl⟩
    | cons raw raws =>
      unfold stepFields at h
      dsimp only at h
      split at h
      · cases h
      · cases h
      · rename_i m' ts' hap
        obtain ⟨msg', rfl, hn⟩ := applyField_num P dm known fd raw msg _ m' ts' hap
        obtain ⟨msg2, h1, h2⟩ := ih raws msg' _ h
        exact ⟨msg2, h1, by rw [h2, hn]⟩

/-- for a known message the prelude hands a fresh message of that number to the field loop -/
theorem dataPre_go_msg (P : Profile) (hb : Nat) (compressed : Bool) (st : DecSt) (dm : DefMsg) (m : Option Msg)
    (st' : DecSt) (h : dataPre P hb compressed st = .go dm m st') (hk : P.known dm.global = true) :
    ∃ msg, m = some msg ∧ msg.num = dm.global := by
  have hlook := dataPre_go P hb compressed st dm m st' h
  unfold dataPre at h
  dsimp only at h
  rw [hlook] at h
  dsimp only at h
  rw [hk] at h
  simp only [true_and, ↓reduceIte, Bool.not_true, Bool.false_eq_true] at h
  cases hmsg : P.msg? dm.global with
  | none => rw [hmsg] at h; simp at h
  | some pm =>
    rw [hmsg] at h
    simp only at h
    cases hc : pm.hasCtor with
    | false => rw [hc] at h; simp at h
    | true =>
      rw [hc] at h
      simp only [↓reduceIte, Option.isNone_some, Bool.false_eq_true] at h
      repeat' (split at h)
      all_goals first
        | (cases h; exact ⟨_, rfl, rfl⟩)
        | (cases h; done)
        | (injection ‹some _ = some _› with e; cases h; subst e; exact ⟨_, rfl, rfl⟩)
        | (rename_i e _ _; injection e with e; cases h; subst e; exact ⟨_, rfl, rfl⟩)

end Fit

namespace Fit
open Fit.Crc

/-- `run_defRest` as an equation, for an accepted definition -/
theorem run_defRest_ok (P : Profile) (limit : Nat) (cont : DefMsg → DecSt → DP)
    (d : DefMsg) (devBit : Bool) (hwf : DefnWF d devBit) (st : DecSt) (n : Nat) (s : SpecSt) (tail : Bytes)
    (hg : ¬ d.global = mesgNumInvalid) (hall : ¬ (!(d.fields.all (validateFieldDef P d.global))) = true)
    (hs : s.rest = ([u8 d.fields.length] ++ serializeFieldDefs d.fields ++
      (if devBit then u8 d.dev.length :: serializeDevDescs d.dev else [])) ++ tail)
    (hl : n + ([u8 d.fields.length] ++ serializeFieldDefs d.fields ++
      (if devBit then u8 d.dev.length :: serializeDevDescs d.dev else [])).length ≤ limit) :
    runSpecD limit (defRest P (defHeader d devBit) d.localT d.arch d.global st cont) n s =
      runSpecD limit (cont (if devBit then d else { d with dev := [] })
        (st.eat ([u8 d.fields.length] ++ serializeFieldDefs d.fields ++
          (if devBit then u8 d.dev.length :: serializeDevDescs d.dev else []))))
        (n + ([u8 d.fields.length] ++ serializeFieldDefs d.fields ++
          (if devBit then u8 d.dev.length :: serializeDevDescs d.dev else [])).length)
        { s with rest := tail, taken := s.taken + ([u8 d.fields.length] ++ serializeFieldDefs d.fields ++
          (if devBit then u8 d.dev.length :: serializeDevDescs d.dev else [])).length } := by
  have := run_defRest P limit cont d devBit hwf st n s tail hs hl
  rw [if_neg hg, if_neg hall] at this
  exact this

/-- **the file_id prelude**: a file_id definition and its data record, read by `parseFileIdMsg`,
    leave the decoder in the state the item machine reaches after the same two items -/
theorem run_parseFileIdMsg_ok (P : Profile) (limit : Nat) (cont : DecSt → DP)
    (d0 : DefMsg) (b0 : Bool) (hwf0 : DefnWF d0 b0) (hg : d0.global = mnFileId) (hkn : P.known mnFileId = true)
    (fs dev : List Bytes) (st st1 st2 : DecSt) (n : Nat) (s : SpecSt) (tail : Bytes)
    (h1 : stepItem P st (.defn d0 b0) = .ok st1)
    (h2 : stepItem P st1 (.data d0.localT fs dev) = .ok st2)
    (hok2 : ItemOK st1 (.data d0.localT fs dev)) (hdefs : d0.localT < st.defs.length)
    (hs : s.rest = serializeItem (.defn d0 b0) ++ (serializeItem (.data d0.localT fs dev) ++ tail))
    (hlim : n + (serializeItem (.defn d0 b0)).length + (serializeItem (.data d0.localT fs dev)).length ≤ limit) :
    runSpecD limit (parseFileIdMsg P st cont) n s =
      runSpecD limit (cont st2)
        (n + (serializeItem (.defn d0 b0)).length + (serializeItem (.data d0.localT fs dev)).length)
        { s with rest := tail,
                 taken := s.taken + (serializeItem (.defn d0 b0)).length + (serializeItem (.data d0.localT fs dev)).length } := by
  obtain ⟨hb16, hdevb, hcb, hdb, hlt⟩ := defHeader_bits d0 b0 hwf0.localT
  -- what the first item did
  have hst1 : ¬ d0.global = mesgNumInvalid ∧ ¬ (!(d0.fields.all (validateFieldDef P d0.global))) = true ∧
      st1 = { st.eat (serializeItem (.defn d0 b0)) with
        defs := setAt st.defs d0.localT (some (if b0 then d0 else { d0 with dev := [] })) } := by
    unfold stepItem at h1
    simp only at h1
    split at h1
    · cases h1
    · split at h1
      · cases h1
      · rename_i hg1 hall
        cases h1
        exact ⟨hg1, hall, rfl⟩
  obtain ⟨hginv, hall, hst1e⟩ := hst1
  rw [serializeItem_defn] at hs hlim hst1e ⊢
  simp only [List.length_cons, List.cons_append] at hs hlim ⊢
  unfold parseFileIdMsg
  rw [run_rd limit st 1 _ n s [u8 (defHeader d0 b0)] (defBody d0 b0 ++ (serializeItem (.data d0.localT fs dev) ++ tail))
    (by rw [hs]; simp) rfl (by omega)]
  rw [eat_rd' st 1 [u8 (defHeader d0 b0)] rfl]
  dsimp only
  have hh : ([u8 (defHeader d0 b0)].headD 0).toNat = defHeader d0 b0 := u8_toNat_lt _ hlt
  rw [hh, hdb]
  simp only [Bool.not_true, Bool.false_eq_true, ↓reduceIte]
  have hbody : defBody d0 b0 = ([0, archByte d0.arch] ++ d0.arch.enc 2 d0.global) ++
      ([u8 d0.fields.length] ++ serializeFieldDefs d0.fields ++
        (if b0 then u8 d0.dev.length :: serializeDevDescs d0.dev else [])) := by
    simp [defBody]
  have hplen : ([0, archByte d0.arch] ++ d0.arch.enc 2 d0.global).length = 4 := by simp [enc_length]
  have hblen : (defBody d0 b0).length = 4 + ([u8 d0.fields.length] ++ serializeFieldDefs d0.fields ++
        (if b0 then u8 d0.dev.length :: serializeDevDescs d0.dev else [])).length := by
    rw [hbody, List.length_append, hplen]
  rw [run_defPrefix P limit _ _ d0.arch d0.global hwf0.global _ (n + 1) _
    (([u8 d0.fields.length] ++ serializeFieldDefs d0.fields ++
        (if b0 then u8 d0.dev.length :: serializeDevDescs d0.dev else [])) ++
      (serializeItem (.data d0.localT fs dev) ++ tail))
    (by simp only [hbody, List.append_assoc]) (by omega)]
  rw [hb16, DecSt.eat_eat]
  rw [run_defRest_ok P limit _ d0 b0 hwf0 _ (n + 1 + 4) _ (serializeItem (.data d0.localT fs dev) ++ tail)
    hginv hall rfl (by omega)]
  rw [DecSt.eat_eat]
  have e1 : [u8 (defHeader d0 b0)] ++ ([0, archByte d0.arch] ++ d0.arch.enc 2 d0.global) ++
      ([u8 d0.fields.length] ++ serializeFieldDefs d0.fields ++
        (if b0 then u8 d0.dev.length :: serializeDevDescs d0.dev else [])) =
      u8 (defHeader d0 b0) :: defBody d0 b0 := by
    rw [hbody]; simp
  rw [e1]
  have e2 : (if b0 = true then d0 else { d0 with dev := [] }).global = mnFileId := by
    cases b0 <;> exact hg
  have e3 : (if b0 = true then d0 else { d0 with dev := [] }).localT = d0.localT := by
    cases b0 <;> rfl
  simp only [e2, ne_eq, not_true_eq_false, ↓reduceIte, e3]
  -- the state is st1
  have est : ({ st.eat (u8 (defHeader d0 b0) :: defBody d0 b0) with
      defs := setAt (st.eat (u8 (defHeader d0 b0) :: defBody d0 b0)).defs d0.localT
        (some (if b0 = true then d0 else { d0 with dev := [] })) } : DecSt) = st1 := by
    rw [hst1e]; rfl
  rw [est]
  -- the data record
  obtain ⟨hl16, hfit⟩ := hok2
  obtain ⟨hc, hd, hm, hu⟩ := data_header_bits d0.localT hl16
  have hlen2 : (serializeItem (.data d0.localT fs dev)).length = 1 + (fs.flatten ++ dev.flatten).length := by
    simp [serializeItem]; omega
  rw [hlen2] at hlim ⊢
  rw [run_rd limit st1 1 _ _ _ [u8 d0.localT] ((fs.flatten ++ dev.flatten) ++ tail)
    (by simp [serializeItem]) rfl (by omega)]
  rw [eat_rd' st1 1 [u8 d0.localT] rfl]
  dsimp only
  have hh2 : ([u8 d0.localT].headD 0).toNat = d0.localT := hu
  rw [hh2]
  -- follow stepData
  simp only [stepItem] at h2
  rw [stepData_pre] at h2
  have gen := run_parseData_gen P d0.localT false limit (fun m st =>
      match m with
      | none => dpanic st
      | some msg =>
        if msg.num ≠ mnFileId then dfail st .other
        else match addMsg P (some msg) st with
          | none => dpanic st
          | some st => cont st) (st1.eat [u8 d0.localT]) fs dev
    (n + 1 + 4 + ([u8 d0.fields.length] ++ serializeFieldDefs d0.fields ++
          (if b0 then u8 d0.dev.length :: serializeDevDescs d0.dev else [])).length + 1)
    { s with rest := (fs.flatten ++ dev.flatten) ++ tail, taken := s.taken + 1 + 4 +
        ([u8 d0.fields.length] ++ serializeFieldDefs d0.fields ++
          (if b0 then u8 d0.dev.length :: serializeDevDescs d0.dev else [])).length + 1 } tail
    (by
      intro dm hdm
      simp only [Bool.false_eq_true, ↓reduceIte, DecSt.eat, hm] at hdm
      exact hfit dm hdm) rfl (by omega)
  cases hp : dataPre P d0.localT false (st1.eat [u8 d0.localT]) with
  | stop p stx => rw [hp] at h2; cases p <;> cases h2
  | go dm m stA =>
    rw [hp] at h2 gen
    simp only at h2 gen
    cases hsf : stepFields P dm (P.known dm.global) dm.fields fs m stA with
    | fail o => rw [hsf] at h2; cases h2
    | ok m2 stB =>
      rw [hsf] at h2 gen
      simp only at h2 gen
      cases ha : addMsg P m2 (stepDev dm.dev dev stB) with
      | none => rw [ha] at h2; cases h2
      | some st2' =>
        rw [ha] at h2
        cases h2
        -- the message is a file_id message
        have hlook := dataPre_go P d0.localT false (st1.eat [u8 d0.localT]) dm m stA hp
        have hdm : dm = (if b0 = true then d0 else { d0 with dev := [] }) := by
          simp only [Bool.false_eq_true, ↓reduceIte, DecSt.eat, hm] at hlook
          rw [hst1e] at hlook
          simp only [DecSt.eat] at hlook
          rw [getD_setAt_eq _ _ _ _ hdefs] at hlook
          cases hlook; rfl
        have hdg : dm.global = mnFileId := by rw [hdm]; exact e2
        obtain ⟨msg, hmsg, hnum⟩ := dataPre_go_msg P d0.localT false _ dm m stA hp (by rw [hdg]; exact hkn)
        subst hmsg
        obtain ⟨msg2, hm2, hnum2⟩ := stepFields_num P dm _ dm.fields fs msg stA m2 stB hsf
        subst hm2
        have hfid : msg2.num = mnFileId := by rw [hnum2, hnum, hdg]
        refine gen.trans ?_
        simp only [hfid, ne_eq, not_true_eq_false, ↓reduceIte, ha]
        congr 1
        · rw [hblen]; omega
        · simp only [hblen]
          congr 1
          omega

end Fit

namespace Fit
open Fit.Crc

/-! ### the header record of the state is never touched by the record machine -/

theorem stepFields_hdr (P : Profile) (dm : DefMsg) (known : Bool) (fds : List FieldDef) (raws : List Bytes)
    (m : Option Msg) (st : DecSt) (m' : Option Msg) (st' : DecSt)
    (h : stepFields P dm known fds raws m st = .ok m' st') : st'.hdr = st.hdr := by
  induction fds generalizing raws m st with
  | nil => simp only [stepFields] at h; cases h; rfl
  | cons fd fds ih =>
    cases raws with
    | nil => simp only [stepFields] at h; cases h; rfl
    | cons raw raws =>
      unfold stepFields at h
      dsimp only at h
      split at h
      · cases h
      · cases h
      · have := ih raws _ _ h
        rw [this]
        simp only [DecSt.setTs]
        split <;> rfl

theorem stepDev_hdr (ds : List DevDesc) (raws : List Bytes) (st : DecSt) : (stepDev ds raws st).hdr = st.hdr := by
  induction ds generalizing raws st with
  | nil => simp [stepDev]
  | cons d ds ih =>
    cases raws with
    | nil => simp [stepDev]
    | cons raw raws => unfold stepDev; rw [ih]

theorem dataPre_go_hdr (P : Profile) (hb : Nat) (compressed : Bool) (st : DecSt) (dm : DefMsg) (m : Option Msg)
    (st' : DecSt) (h : dataPre P hb compressed st = .go dm m st') : st'.hdr = st.hdr := by
  unfold dataPre at h
  dsimp only at h
  cases hd : st.defs.getD (if compressed = true then hb / 32 % 4 else hb % 16) none with
  | none => rw [hd] at h; cases h
  | some dm0 =>
    rw [hd] at h
    dsimp only at h
    repeat' (split at h)
    all_goals first | (cases h; rfl) | cases h

theorem addMsg_hdr (P : Profile) (m : Option Msg) (st st' : DecSt) (h : addMsg P m st = some st') : st'.hdr = st.hdr := by
  unfold addMsg at h
  split at h
  · cases h; rfl
  · split at h
    · cases h
    · split at h
      · cases h
      · cases h; rfl

theorem stepItem_hdr (P : Profile) (st st' : DecSt) (it : Item) (h : stepItem P st it = .ok st') : st'.hdr = st.hdr := by
  have data : ∀ hb c fs dev (st0 : DecSt), stepData P hb c fs dev st0 = .ok st' → st'.hdr = st0.hdr := by
    intro hb c fs dev st0 h
    rw [stepData_pre] at h
    cases hp : dataPre P hb c st0 with
    | stop p st1 => rw [hp] at h; cases p <;> cases h
    | go dm m st1 =>
      rw [hp] at h
      simp only at h
      cases hsf : stepFields P dm (P.known dm.global) dm.fields fs m st1 with
      | fail o => rw [hsf] at h; cases h
      | ok m2 st2 =>
        rw [hsf] at h
        simp only at h
        cases ha : addMsg P m2 (stepDev dm.dev dev st2) with
        | none => rw [ha] at h; cases h
        | some st3 =>
          rw [ha] at h
          cases h
          rw [addMsg_hdr P _ _ _ ha, stepDev_hdr, stepFields_hdr P dm _ _ _ _ _ _ _ hsf, dataPre_go_hdr P hb c st0 dm m st1 hp]
  cases it with
  | defn d devBit =>
    unfold stepItem at h
    simp only at h
    split at h
    · cases h
    · split at h
      · cases h
      · cases h; rfl
  | data l fs dev =>
    simp only [stepItem] at h
    rw [data _ _ _ _ _ h]; rfl
  | cdata l off fs dev =>
    simp only [stepItem] at h
    rw [data _ _ _ _ _ h]; rfl

theorem stepItems_hdr (P : Profile) (st st' : DecSt) (its : List Item) (h : stepItems P st its = .ok st') :
    st'.hdr = st.hdr := by
  induction its generalizing st with
  | nil => simp only [stepItems] at h; cases h; rfl
  | cons it its ih =>
    unfold stepItems at h
    cases hs : stepItem P st it with
    | stop o => rw [hs] at h; cases h
    | ok st1 =>
      rw [hs] at h
      rw [ih st1 h, stepItem_hdr P st st1 it hs]

/-! ### nor is the header the File carries -/

/-- the header recorded in the File under construction -/
def DecSt.fhdr (st : DecSt) : Option Header := st.file.map (·.hdr)

theorem FileSt.add_hdr (P : Profile) (f : FileSt) (m : Msg) (g : Globals) (f' : FileSt) (g' : Globals)
    (h : f.add P m g = some (f', g')) : f'.hdr = f.hdr := by
  unfold FileSt.add at h
  repeat' (split at h)
  all_goals first
    | (cases h; rfl)
    | (cases h; done)
    | (injection h with h; injection h with h1 h2; rw [← h1])


theorem stepFields_fhdr (P : Profile) (dm : DefMsg) (known : Bool) (fds : List FieldDef) (raws : List Bytes)
    (m : Option Msg) (st : DecSt) (m' : Option Msg) (st' : DecSt)
    (h : stepFields P dm known fds raws m st = .ok m' st') : st'.fhdr = st.fhdr := by
  induction fds generalizing raws m st with
  | nil => simp only [stepFields] at h; cases h; rfl
  | cons fd fds ih =>
    cases raws with
    | nil => simp only [stepFields] at h; cases h; rfl
    | cons raw raws =>
      unfold stepFields at h
      dsimp only at h
      split at h
      · cases h
      · cases h
      · have := ih raws _ _ h
        rw [this]
        simp only [DecSt.setTs]
        split <;> rfl

theorem stepDev_fhdr (ds : List DevDesc) (raws : List Bytes) (st : DecSt) : (stepDev ds raws st).fhdr = st.fhdr := by
  induction ds generalizing raws st with
  | nil => simp [stepDev]
  | cons d ds ih =>
    cases raws with
    | nil => simp [stepDev]
    | cons raw raws => unfold stepDev; rw [ih]; rfl

theorem dataPre_go_fhdr (P : Profile) (hb : Nat) (compressed : Bool) (st : DecSt) (dm : DefMsg) (m : Option Msg)
    (st' : DecSt) (h : dataPre P hb compressed st = .go dm m st') : st'.fhdr = st.fhdr := by
  unfold dataPre at h
  dsimp only at h
  cases hd : st.defs.getD (if compressed = true then hb / 32 % 4 else hb % 16) none with
  | none => rw [hd] at h; cases h
  | some dm0 =>
    rw [hd] at h
    dsimp only at h
    repeat' (split at h)
    all_goals first | (cases h; rfl) | cases h

theorem addMsg_fhdr (P : Profile) (m : Option Msg) (st st' : DecSt) (h : addMsg P m st = some st') : st'.fhdr = st.fhdr := by
  unfold addMsg at h
  split at h
  · cases h; rfl
  · split at h
    · cases h
    · split at h
      · cases h
      · rename_i f hf _ f' g' hadd
        cases h
        simp only [DecSt.fhdr, hf, Option.map_some, FileSt.add_hdr P f _ _ f' g' hadd]

theorem stepItem_fhdr (P : Profile) (st st' : DecSt) (it : Item) (h : stepItem P st it = .ok st') : st'.fhdr = st.fhdr := by
  have data : ∀ hb c fs dev (st0 : DecSt), stepData P hb c fs dev st0 = .ok st' → st'.fhdr = st0.fhdr := by
    intro hb c fs dev st0 h
    rw [stepData_pre] at h
    cases hp : dataPre P hb c st0 with
    | stop p st1 => rw [hp] at h; cases p <;> cases h
    | go dm m st1 =>
      rw [hp] at h
      simp only at h
      cases hsf : stepFields P dm (P.known dm.global) dm.fields fs m st1 with
      | fail o => rw [hsf] at h; cases h
      | ok m2 st2 =>
        rw [hsf] at h
        simp only at h
        cases ha : addMsg P m2 (stepDev dm.dev dev st2) with
        | none => rw [ha] at h; cases h
        | some st3 =>
          rw [ha] at h
          cases h
          rw [addMsg_fhdr P _ _ _ ha, stepDev_fhdr, stepFields_fhdr P dm _ _ _ _ _ _ _ hsf, dataPre_go_fhdr P hb c st0 dm m st1 hp]
  cases it with
  | defn d devBit =>
    unfold stepItem at h
    simp only at h
    split at h
    · cases h
    · split at h
      · cases h
      · cases h; rfl
  | data l fs dev =>
    simp only [stepItem] at h
    rw [data _ _ _ _ _ h]; rfl
  | cdata l off fs dev =>
    simp only [stepItem] at h
    rw [data _ _ _ _ _ h]; rfl

theorem stepItems_fhdr (P : Profile) (st st' : DecSt) (its : List Item) (h : stepItems P st its = .ok st') :
    st'.fhdr = st.fhdr := by
  induction its generalizing st with
  | nil => simp only [stepItems] at h; cases h; rfl
  | cons it its ih =>
    unfold stepItems at h
    cases hs : stepItem P st it with
    | stop o => rw [hs] at h; cases h
    | ok st1 =>
      rw [hs] at h
      rw [ih st1 h, stepItem_fhdr P st st1 it hs]

theorem serialize_length_ge (its : List Item) : its.length ≤ (serialize its).length := by
  induction its with
  | nil => simp [serialize]
  | cons it its ih =>
    rw [serialize_cons, List.length_append, List.length_cons]
    have : 1 ≤ (serializeItem it).length := by
      cases it <;> simp [serializeItem]
    omega

end Fit

namespace Fit
open Fit.Crc

/-- the decoder state when the record phase starts -/
def recState0 (P : Profile) (k : HdrKind) (g : Globals) (proto profile len : Nat) : DecSt :=
  { afterHeader k g proto profile len with
    file := some { hdr := (afterHeader k g proto profile len).hdr, fileId := zeroFileId P }, unkInit := true }

theorem update_lo_hi (c : BitVec 16) : update c [lo c, hi c] = 0#16 := by
  have := Props.C14.residue_from c []
  simpa [update] using this

theorem frameBytes_split (k : HdrKind) (proto profile : Nat) (recs : Bytes) :
    frameBytesK k proto profile recs =
      u8 k.size :: (hdrTail k proto profile recs.length ++ (recs ++
        [lo (checksum (frameHdr k proto profile recs.length ++ recs)), hi (checksum (frameHdr k proto profile recs.length ++ recs))])) := by
  unfold frameBytesK
  generalize checksum (frameHdr k proto profile recs.length ++ recs) = fc
  rw [frameHdr_split]
  simp

/-- the header phase on a header declaring `L` record bytes, whatever follows -/
theorem frame_header_step' (P : Profile) (m : Mode) (k : HdrKind) (g : Globals) (proto profile L : Nat) (R : Bytes) (stop : Stop)
    (hp : proto < 256) (hp2 : proto / 16 ≤ protoMajorMax) (cont : DecSt → HP) :
    runSpec (decodeHeader (DecSt.init g) cont)
        { rest := u8 k.size :: (hdrTail k proto profile L ++ R), stop := stop, taken := 0 } =
      runSpec (cont (afterHeader k g proto profile L)) { rest := R, stop := stop, taken := k.size } := by
  have h13 := hdrTail_length k proto profile L
  have hsz := k.size_cases
  have hu : (u8 k.size).toNat = k.size := by cases k <;> rfl
  rw [decodeHeader_run_ok (DecSt.init g) (afterHeader k g proto profile L) cont _ k.size hsz
    (by simp only [List.length_cons, List.length_append, h13]; omega)
    (by simp only [List.headD_cons]; exact hu.symm)
    (by
      have e1 : (u8 k.size :: (hdrTail k proto profile L ++ R)).take 1 = [u8 k.size] := rfl
      have e2 : ((u8 k.size :: (hdrTail k proto profile L ++ R)).drop 1).take (k.size - 1) = hdrTail k proto profile L := by
        simp only [List.drop_succ_cons, List.drop_zero]
        exact List.take_left' h13
      simp only at e1 e2 ⊢
      rw [e1, e2]
      exact headerCheck_frame k g proto profile L hp hp2)]
  have hdrop : (u8 k.size :: (hdrTail k proto profile L ++ R)).drop k.size = R := by
    have e : (u8 k.size :: (hdrTail k proto profile L ++ R)).drop ((k.size - 1) + 1) = R := by
      rw [List.drop_succ_cons]
      exact List.drop_left' h13
    have e' : k.size - 1 + 1 = k.size := by omega
    rw [e'] at e
    exact e
  simp only [hdrop, Nat.zero_add]

/-- the header phase on a frame -/
theorem frame_header_step (P : Profile) (m : Mode) (k : HdrKind) (g : Globals) (proto profile : Nat) (recs tail : Bytes) (stop : Stop)
    (hp : proto < 256) (hp2 : proto / 16 ≤ protoMajorMax) (cont : DecSt → HP) :
    runSpec (decodeHeader (DecSt.init g) cont)
        { rest := frameBytesK k proto profile recs ++ tail, stop := stop, taken := 0 } =
      runSpec (cont (afterHeader k g proto profile recs.length))
        { rest := recs ++ [lo (checksum (frameHdr k proto profile recs.length ++ recs)),
            hi (checksum (frameHdr k proto profile recs.length ++ recs))] ++ tail, stop := stop, taken := k.size } := by
  have hrest : frameBytesK k proto profile recs ++ tail = u8 k.size :: (hdrTail k proto profile recs.length ++ (recs ++
      [lo (checksum (frameHdr k proto profile recs.length ++ recs)), hi (checksum (frameHdr k proto profile recs.length ++ recs))] ++ tail)) := by
    rw [frameBytes_split]; simp
  rw [hrest]
  exact frame_header_step' P m k g proto profile recs.length _ stop hp hp2 cont

/-- **Whole-file framing.** Lay out any list of items — starting with a file_id definition and
    its data record — as a FIT writer does (a header of any of the three kinds, records, file CRC). If the item
    machine accepts the items (`runItems … = .ok st'`), then `Decode`, on those bytes followed by
    anything, succeeds and returns exactly the item machine's state (its File, definitions,
    timestamp reference, counters), with the file CRC recorded. -/
theorem decode_frame_ok (P : Profile) (o : Opts) (k : HdrKind) (g : Globals) (proto profile : Nat)
    (d0 : DefMsg) (b0 : Bool) (fs dev : List Bytes) (rest : List Item) (tail : Bytes) (stop : Stop) (st' : DecSt)
    (hp : proto < 256) (hp2 : proto / 16 ≤ protoMajorMax)
    (hwf0 : DefnWF d0 b0) (hg : d0.global = mnFileId) (hkn : P.known mnFileId = true)
    (hlen : (serialize (.defn d0 b0 :: .data d0.localT fs dev :: rest)).length < 4294967296)
    (hfit : ItemsFitD P (List.replicate 16 none) (.defn d0 b0 :: .data d0.localT fs dev :: rest))
    (hrun : runItems P (afterHeader k g proto profile (serialize (.defn d0 b0 :: .data d0.localT fs dev :: rest)).length).hdr g
      (.defn d0 b0 :: .data d0.localT fs dev :: rest)
      (afterHeader k g proto profile (serialize (.defn d0 b0 :: .data d0.localT fs dev :: rest)).length).crc = .ok st') :
    (decodeSpec P o .full g
      (frameBytesK k proto profile (serialize (.defn d0 b0 :: .data d0.localT fs dev :: rest)) ++ tail) stop).1 =
      finalize o (okOut { st' with
        crc := 0#16,
        file := st'.file.map fun f => { f with crc := (checksum (frameHdr k proto profile
          (serialize (.defn d0 b0 :: .data d0.localT fs dev :: rest)).length ++
          serialize (.defn d0 b0 :: .data d0.localT fs dev :: rest))).toNat } }) := by
  -- what the item machine did
  unfold runItems at hrun
  simp only at hrun
  cases h1 : stepItem P (recState0 P k g proto profile (serialize (.defn d0 b0 :: .data d0.localT fs dev :: rest)).length)
      (.defn d0 b0) with
  | stop o1 =>
    have : stepItem P { DecSt.init g with hdr := (afterHeader k g proto profile (serialize (.defn d0 b0 :: .data d0.localT fs dev :: rest)).length).hdr, crc := (afterHeader k g proto profile (serialize (.defn d0 b0 :: .data d0.localT fs dev :: rest)).length).crc, file := some { hdr := (afterHeader k g proto profile (serialize (.defn d0 b0 :: .data d0.localT fs dev :: rest)).length).hdr, fileId := zeroFileId P }, unkInit := true } (.defn d0 b0) = .stop o1 := h1
    rw [this] at hrun; cases hrun
  | ok st1 =>
    have e1 : stepItem P { DecSt.init g with hdr := (afterHeader k g proto profile (serialize (.defn d0 b0 :: .data d0.localT fs dev :: rest)).length).hdr, crc := (afterHeader k g proto profile (serialize (.defn d0 b0 :: .data d0.localT fs dev :: rest)).length).crc, file := some { hdr := (afterHeader k g proto profile (serialize (.defn d0 b0 :: .data d0.localT fs dev :: rest)).length).hdr, fileId := zeroFileId P }, unkInit := true } (.defn d0 b0) = .ok st1 := h1
    rw [e1] at hrun
    simp only at hrun
    cases h2 : stepItem P st1 (.data d0.localT fs dev) with
    | stop o2 => rw [h2] at hrun; cases hrun
    | ok st2 =>
      rw [h2] at hrun
      simp only at hrun
      cases hf2 : st2.file with
      | none => rw [hf2] at hrun; cases hrun
      | some f =>
        rw [hf2] at hrun
        simp only at hrun
        cases hinit : f.init P with
        | error c => rw [hinit] at hrun; cases hrun
        | ok f' =>
          rw [hinit] at hrun
          simp only at hrun
          -- fitness of the items along the states actually reached
          obtain ⟨hokd0, hokdr, hfitrest⟩ := hfit
          have hd1 := stepItem_defs P _ st1 _ (ItemOKD.toOK (recState0 P k g proto profile _) _ hokd0) h1
          have hok2 : ItemOK st1 (.data d0.localT fs dev) := by
            apply ItemOKD.toOK
            rw [hd1]; exact hokdr
          have hd2 := stepItem_defs P st1 st2 _ hok2 h2
          have hfit3 : ItemsFit P { st2 with file := some f' } rest := by
            apply ItemsFitD.toFit
            show ItemsFitD P st2.defs rest
            rw [hd2, hd1]
            exact hfitrest
          -- abbreviations
          generalize hL : (serialize (.defn d0 b0 :: .data d0.localT fs dev :: rest)).length = L at *
          have hser : serialize (.defn d0 b0 :: .data d0.localT fs dev :: rest) =
              serializeItem (.defn d0 b0) ++ (serializeItem (.data d0.localT fs dev) ++ serialize rest) := by
            rw [serialize_cons, serialize_cons]
          have hLsum : L = (serializeItem (.defn d0 b0)).length + (serializeItem (.data d0.localT fs dev)).length +
              (serialize rest).length := by
            rw [← hL, hser]; simp only [List.length_append]; omega
          have hn1 := stepItem_n P _ st1 _ (ItemOKD.toOK (recState0 P k g proto profile L) _ hokd0) h1
          have hn2 := stepItem_n P st1 st2 _ hok2 h2
          have hh1 := stepItem_hdr P _ st1 _ h1
          have hh2 := stepItem_hdr P st1 st2 _ h2
          have hds : st2.hdr.dataSize = L := by
            rw [hh2, hh1]
            show L % 4294967296 = L
            exact Nat.mod_eq_of_lt hlen
          have hn0 : (recState0 P k g proto profile L).n = 0 := rfl
          -- the data phase
          have hD : ∀ (fe : Nat) (crc2 : Bytes),
              runSpecD L (recordsProg P .full (recState0 P k g proto profile L)) 0
                { rest := serialize (.defn d0 b0 :: .data d0.localT fs dev :: rest) ++ crc2 ++ tail, stop := stop,
                  taken := k.size, frameEnd := fe } =
              (.inr st', L, { rest := crc2 ++ tail, stop := stop, taken := k.size + L, frameEnd := fe }) := by
            intro fe crc2
            unfold recordsProg
            rw [run_parseFileIdMsg_ok P L _ d0 b0 hwf0 hg hkn fs dev _ st1 st2 0 _ (serialize rest ++ crc2 ++ tail)
              h1 h2 hok2 (by show d0.localT < (List.replicate 16 none).length; simp; exact hwf0.localT)
              (by rw [hser]; simp only [List.append_assoc]) (by omega)]
            have hmode : ¬ (Mode.full = Mode.fileIdOnly) := by decide
            simp only [hmode, ↓reduceIte, hf2, hinit, hds]
            have hfuel : (L + 1 - rest.length) + rest.length = L + 1 := by
              have := serialize_length_ge rest; omega
            rw [← hfuel]
            have key := run_items P L (fun st => DProg.done st) rest (L + 1 - rest.length) { st2 with file := some f' }
              (0 + (serializeItem (.defn d0 b0)).length + (serializeItem (.data d0.localT fs dev)).length)
              { rest := serialize rest ++ crc2 ++ tail, stop := stop,
                taken := k.size + (serializeItem (.defn d0 b0)).length + (serializeItem (.data d0.localT fs dev)).length,
                frameEnd := fe } (crc2 ++ tail) hfit3 (by simp only [List.append_assoc]) (by omega)
              (by show st2.n = _; rw [hn2, hn1, hn0])
            rw [hrun] at key
            simp only at key
            obtain ⟨k1, k2⟩ := key
            rw [k1]
            have hnL : st'.n = L := by rw [k2]; omega
            have hdone : decodeFileData P L (L + 1 - rest.length) st' (fun st => DProg.done st) = DProg.done st' := by
              cases hfu : L + 1 - rest.length with
              | zero => rfl
              | succ k =>
                rw [decodeFileData]
                have : ¬ st'.n < L := by omega
                rw [if_neg this]
            rw [hdone]
            simp only [runSpecD]
            have e1 : 0 + (serializeItem (.defn d0 b0)).length + (serializeItem (.data d0.localT fs dev)).length +
                (serialize rest).length = L := by omega
            have e2 : k.size + (serializeItem (.defn d0 b0)).length + (serializeItem (.data d0.localT fs dev)).length +
                (serialize rest).length = k.size + L := by omega
            rw [e1, e2]
          -- the checksum register at the end of the data phase
          have hcrc : st'.crc = checksum (frameHdr k proto profile L ++
              serialize (.defn d0 b0 :: .data d0.localT fs dev :: rest)) := by
            have ht := Tracks.run L (recordsProg P .full (recState0 P k g proto profile L)) _
              (recordsProg_tracks P .full (recState0 P k g proto profile L)) 0
              { rest := serialize (.defn d0 b0 :: .data d0.localT fs dev :: rest) ++ [] ++ tail, stop := stop,
                taken := k.size, frameEnd := 0 } st' (by rw [hD 0 []])
            rw [hD 0 []] at ht
            have h1' := ht.1
            simp only [DecSt.ctr, List.append_nil] at h1'
            have e14 : k.size + L - k.size = L := by omega
            rw [e14] at h1'
            have etake : (serialize (.defn d0 b0 :: .data d0.localT fs dev :: rest) ++ tail).take L =
                serialize (.defn d0 b0 :: .data d0.localT fs dev :: rest) := List.take_left' hL
            rw [etake] at h1'
            rw [h1']
            have hz : (recState0 P k g proto profile L).crc = checksum (frameHdr k proto profile L) := rfl
            rw [hz]
            unfold checksum
            rw [← update_append]
          -- put the pieces together
          unfold decodeSpec
          simp only
          congr 1
          unfold decodeProg
          rw [frame_header_step P .full k g proto profile _ tail stop hp hp2]
          rw [hL]
          simp only [runSpec]
          have hlim : (afterHeader k g proto profile L).hdr.dataSize = L := Nat.mod_eq_of_lt hlen
          rw [hlim]
          have hst0 : ({ afterHeader k g proto profile L with
              file := some { hdr := (afterHeader k g proto profile L).hdr, fileId := zeroFileId P },
              unkInit := true } : DecSt) = recState0 P k g proto profile L := rfl
          rw [hst0, hD]
          simp only [↓reduceIte]
          unfold checkCRC
          simp only [runSpecT]
          have h2len : 2 ≤ ([lo (checksum (frameHdr k proto profile L ++ serialize (.defn d0 b0 :: .data d0.localT fs dev :: rest))),
              hi (checksum (frameHdr k proto profile L ++ serialize (.defn d0 b0 :: .data d0.localT fs dev :: rest)))] ++ tail).length := by
            simp
          rw [if_pos h2len]
          generalize checksum (frameHdr k proto profile L ++ serialize (.defn d0 b0 :: .data d0.localT fs dev :: rest)) = fc at hcrc ⊢
          have hzero : update st'.crc [lo fc, hi fc] = 0#16 := by rw [hcrc]; exact update_lo_hi fc
          simp only [List.cons_append, List.nil_append, List.take_succ_cons, List.take_zero, hzero, ↓reduceIte,
            lo_hi_leNat]


/-- **`DecodeHeader` on a frame**: the header of the frame, and nothing of the records, whatever they are. -/
theorem decode_frame_header_only (P : Profile) (o : Opts) (k : HdrKind) (g : Globals) (proto profile : Nat)
    (recs tail : Bytes) (stop : Stop) (hp : proto < 256) (hp2 : proto / 16 ≤ protoMajorMax) :
    (decodeSpec P o .headerOnly g (frameBytesK k proto profile recs ++ tail) stop).1 =
      finalize o (okOut { afterHeader k g proto profile recs.length with
        file := some { hdr := (afterHeader k g proto profile recs.length).hdr, fileId := zeroFileId P } }) := by
  unfold decodeSpec
  simp only
  congr 1
  unfold decodeProg
  rw [frame_header_step P .headerOnly k g proto profile recs tail stop hp hp2]
  simp only [runSpec]

/-- **`DecodeHeaderAndFileID` on a frame**: the header of the frame and the message of its first data
    record — the state the record machine reaches after the file_id definition and data record. -/
theorem decode_frame_fileid_only (P : Profile) (o : Opts) (k : HdrKind) (g : Globals) (proto profile : Nat)
    (d0 : DefMsg) (b0 : Bool) (fs dev : List Bytes) (rest : List Item) (tail : Bytes) (stop : Stop) (st1 st2 : DecSt)
    (hp : proto < 256) (hp2 : proto / 16 ≤ protoMajorMax)
    (hwf0 : DefnWF d0 b0) (hg : d0.global = mnFileId) (hkn : P.known mnFileId = true)
    (hlen : (serialize (.defn d0 b0 :: .data d0.localT fs dev :: rest)).length < 4294967296)
    (hfit : ItemsFitD P (List.replicate 16 none) (.defn d0 b0 :: .data d0.localT fs dev :: rest))
    (h1 : stepItem P (recState0 P k g proto profile (serialize (.defn d0 b0 :: .data d0.localT fs dev :: rest)).length)
      (.defn d0 b0) = .ok st1)
    (h2 : stepItem P st1 (.data d0.localT fs dev) = .ok st2) :
    (decodeSpec P o .fileIdOnly g
      (frameBytesK k proto profile (serialize (.defn d0 b0 :: .data d0.localT fs dev :: rest)) ++ tail) stop).1 =
      finalize o (okOut st2) := by
  obtain ⟨hokd0, hokdr, _⟩ := hfit
  have hd1 := stepItem_defs P _ st1 _ (ItemOKD.toOK (recState0 P k g proto profile _) _ hokd0) h1
  have hok2 : ItemOK st1 (.data d0.localT fs dev) := by
    apply ItemOKD.toOK
    rw [hd1]; exact hokdr
  generalize hL : (serialize (.defn d0 b0 :: .data d0.localT fs dev :: rest)).length = L at *
  have hser : serialize (.defn d0 b0 :: .data d0.localT fs dev :: rest) =
      serializeItem (.defn d0 b0) ++ (serializeItem (.data d0.localT fs dev) ++ serialize rest) := by
    rw [serialize_cons, serialize_cons]
  have hLsum : L = (serializeItem (.defn d0 b0)).length + (serializeItem (.data d0.localT fs dev)).length +
      (serialize rest).length := by
    rw [← hL, hser]; simp only [List.length_append]; omega
  unfold decodeSpec
  simp only
  congr 1
  unfold decodeProg
  rw [frame_header_step P .fileIdOnly k g proto profile _ tail stop hp hp2]
  rw [hL]
  simp only [runSpec]
  have hlim : (afterHeader k g proto profile L).hdr.dataSize = L := Nat.mod_eq_of_lt hlen
  rw [hlim]
  have hst0 : ({ afterHeader k g proto profile L with
      file := some { hdr := (afterHeader k g proto profile L).hdr, fileId := zeroFileId P },
      unkInit := true } : DecSt) = recState0 P k g proto profile L := rfl
  rw [hst0]
  unfold recordsProg
  rw [run_parseFileIdMsg_ok P L _ d0 b0 hwf0 hg hkn fs dev _ st1 st2 0 _
    (serialize rest ++ [lo (checksum (frameHdr k proto profile L ++ serialize (.defn d0 b0 :: .data d0.localT fs dev :: rest))),
      hi (checksum (frameHdr k proto profile L ++ serialize (.defn d0 b0 :: .data d0.localT fs dev :: rest)))] ++ tail)
    h1 h2 hok2 (by show d0.localT < (List.replicate 16 none).length; simp; exact hwf0.localT)
    (by rw [hser]; simp only [List.append_assoc]) (by omega)]
  simp only [↓reduceIte, runSpecD]


theorem FileSt.init_hdr (P : Profile) (f f' : FileSt) (h : f.init P = .ok f') : f'.hdr = f.hdr := by
  unfold FileSt.init at h
  split at h
  · cases h; rfl
  · cases h
  · cases h

/-- the File the record machine returns carries the header it was started with -/
theorem runItems_fhdr (P : Profile) (hdr : Header) (g : Globals) (its : List Item) (crc0 : BitVec 16) (st' : DecSt)
    (h : runItems P hdr g its crc0 = .ok st') : st'.fhdr = some hdr := by
  unfold runItems at h
  simp only at h
  split at h
  · rename_i d r rest
    split at h
    · cases h
    · rename_i st1 h1
      split at h
      · cases h
      · rename_i st2 h2
        split at h
        · cases h
        · rename_i f hf
          split at h
          · cases h
          · rename_i f' hinit
            rw [stepItems_fhdr P _ st' rest h]
            simp only [DecSt.fhdr, Option.map_some]
            rw [FileSt.init_hdr P f f' hinit]
            have e2 := stepItem_fhdr P st1 st2 r h2
            have e1 := stepItem_fhdr P _ st1 d h1
            rw [e1] at e2
            simp only [DecSt.fhdr, hf, Option.map_some] at e2
            injection e2 with e2
            rw [e2]
  · cases h

end Fit
