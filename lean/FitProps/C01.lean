import FitModel.Decode
import FitModel.WF
import FitModel.Gen.Profile
import FitProofs.Refine
import FitProofs.NoPanic
import FitProofs.Chain
/-!
  C01 — decoding entry points are total: no panic or hang on any byte input.

  Every Go panic site on the decode paths is an explicit `panic` outcome of the model
  (`dpanic`/`panicOut`): a nil `msgAdder`, reflection `SetUint`/`SetInt`/`Set` on a struct field of
  the wrong kind, `Field(i)` out of range, slicing `tmp` beyond what was read, the zero `Value`, the
  "pre-CRC" invariant check. Every loop of the decoder is a structural recursion or consumes fuel
  bounded by the header's data size (Lean's termination checker accepts the model, and
  `decode_never_panics` shows the fuel is never what ends the record loop). The theorems below show
  that on a profile satisfying `ProfileWF` — which the regenerated profile does (`gen_wf`) — no
  input, package state, option set or read schedule leads to a panic outcome. The correspondence run
  compares the real code's behaviour (under `recover` and a per-case timeout) with the model's.
-/
namespace Fit.Props.C01
open Fit

/-- `Base.Known` over all 256 base-type bytes: known exactly for the 17 table indices with a
    consistent multi-byte flag (bits 5 and 6 are ignored) -/
theorem known_bytes : ∀ b : Fin 256,
    Base.known b.val = (decide (b.val % 32 < 17) && (decide (b.val ≥ 128) == decide (Base.size b.val > 1))) := by
  decide +kernel

/-- a definition whose base type is not known is rejected, whatever message and field it names -/
theorem unknown_base_rejected (P : Profile) (g : Nat) (fd : FieldDef) (h : Base.known fd.btype = false) :
    validateFieldDef P g fd = false := by
  simp [validateFieldDef, h]

/-- a non-string definition smaller than its own base type is rejected (no short reads of
    `tmp[:dsize]` by `Uint16/Uint32`) -/
theorem short_definition_rejected (P : Profile) (g : Nat) (fd : FieldDef)
    (hs : fd.btype ≠ Base.string) (h : fd.size < Base.size fd.btype) :
    validateFieldDef P g fd = false := by
  unfold validateFieldDef
  split
  · rfl
  · simp only [hs, ↓reduceIte, h]

/-- for a listed scalar field an accepted definition is never wider than the profile type -/
theorem accepted_not_wider (P : Profile) (g : Nat) (fd : FieldDef) (pf : PField)
    (hk : P.known g = true) (hf : P.getField g fd.num = some pf)
    (hs : fd.btype ≠ Base.string) (ha : tcArray pf.tcode = false)
    (h : validateFieldDef P g fd = true) : fd.size ≤ Base.size (tcBase pf.tcode) := by
  unfold validateFieldDef at h
  simp only [hk, ↓reduceIte, hf, hs, ha] at h
  split at h
  · cases h
  · split at h
    · cases h
    · simp only [Bool.not_false, ↓reduceIte] at h
      split at h
      · cases h
      · omega

/-- the buffered reader never pulls bytes beyond the frame (no over-read): see C10 -/
theorem no_overread (P : Profile) (m : Mode) (g : Globals) (r : Reader) :
    let sp := runSpec (decodeProg P m g) { rest := r.data, stop := r.stop, taken := r.pos, frameEnd := 0 }
    (runBuffered (decodeProg P m g) r).2.pos = sp.2.taken ∨ (runBuffered (decodeProg P m g) r).2.pos ≤ sp.2.frameEnd :=
  (run_refines (decodeProg P m g) r 0).2.2

/-- the regenerated profile satisfies the well-formedness predicate the reflection accesses rely on -/
theorem gen_wf : ProfileWF Gen.profile = true := by decide +kernel

/-- non-vacuity: a narrow definition (1-byte uint8 for the uint16 field record.heart... i.e.
    session.total_calories) is admitted -/
example : validateFieldDef Gen.profile 18 ⟨11, 1, Base.uint8⟩ = true := by decide +kernel

/-- **No entry point panics (specification run).** For every well-formed profile, mode
    (Decode / DecodeHeader / DecodeHeaderAndFileID / CheckIntegrity), option set, package state
    and input, with either way of ending, the outcome is a result or an error. -/
theorem decodeSpec_never_panics (P : Profile) (hwf : ProfileWF P = true) (o : Opts) (m : Mode) (g : Globals)
    (data : Bytes) (stop : Stop) : (decodeSpec P o m g data stop).1.panic = false := by
  unfold decodeSpec
  simp only
  rw [(finalize_err o _).2.1]
  exact prog_never_panics P hwf m g _

/-- **No entry point panics (the buffered run, any reader).** Whatever the reader's chunking, and
    whether it ends with EOF or with an error, delivered with or without final bytes. -/
theorem decode_never_panics (P : Profile) (hwf : ProfileWF P = true) (o : Opts) (m : Mode) (g : Globals)
    (r : Reader) : (decode P o m g r).1.panic = false := by
  rw [decode_out_eq_spec]
  exact decodeSpec_never_panics P hwf o m g r.data r.stop

/-- the instance for the tree under check: the regenerated profile -/
theorem decode_never_panics_gen (o : Opts) (m : Mode) (g : Globals) (r : Reader) :
    (decode Gen.profile o m g r).1.panic = false :=
  decode_never_panics Gen.profile gen_wf o m g r

/-- `DecodeChained` never panics either: each step is a `Decode`, and a successful `Decode`
    always carries a File to append. -/
theorem chained_never_panics (P : Profile) (hwf : ProfileWF P = true) (o : Opts) (fuel i : Nat)
    (acc : List FileSt) (g : Globals) (data : Bytes) (stop : Stop) :
    (decodeChainedSpec P o fuel i acc g data stop).panic = false := by
  induction fuel generalizing i acc g data with
  | zero => rfl
  | succ fuel ih =>
    rw [decodeChainedSpec]
    have hp := decodeSpec_never_panics P hwf o .full g data stop
    simp only [hp, Bool.false_eq_true, ↓reduceIte]
    cases he : (decodeSpec P o .full g data stop).1.err with
    | some c =>
      simp only
      split <;> rfl
    | none =>
      simp only
      have hs : (decodeSpec P o .full g data stop).1.success := ⟨he, hp⟩
      have hf := success_has_file P hwf g _ (spec_success_of P o .full g data stop hs)
      have hf' : (decodeSpec P o .full g data stop).1.st.file.isSome = true := by
        unfold decodeSpec
        simp only
        unfold finalize
        split
        · exact hf
        · simp only
          cases hfile : (runSpec (decodeProg P .full g) { rest := data, stop := stop, taken := 0 }).1.st.file with
          | none => rw [hfile] at hf; cases hf
          | some f => rfl
      cases hfile : (decodeSpec P o .full g data stop).1.st.file with
      | none => rw [hfile] at hf'; cases hf'
      | some f => exact ih _ _ _ _

/-- and so for the real loop over any reader -/
theorem chained_never_panics_buffered (P : Profile) (hwf : ProfileWF P = true) (o : Opts) (fuel i : Nat)
    (acc : List FileSt) (g : Globals) (r : Reader) : (decodeChained P o fuel i acc g r).panic = false := by
  rw [(chained_eq_spec P o fuel i acc g r).2.2.1]
  exact chained_never_panics P hwf o fuel i acc g r.data r.stop

end Fit.Props.C01
