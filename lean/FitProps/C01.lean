import FitModel.Decode
import FitModel.WF
import FitModel.Gen.Profile
import FitProofs.Refine
/-!
  C01 — decoding entry points are total: no panic or hang on any byte input.

  Every Go panic site on the decode paths is an explicit `panic` outcome of the model
  (`dpanic`/`panicOut`), every loop of the decoder is a structural recursion or consumes fuel
  bounded by the header's data size; the correspondence run compares the real code's behaviour
  (under `recover` and a per-case timeout) with the model's on every case.
-/
namespace Fit.Props.C01
open Fit

/-- `Base.Known` over all 256 base-type bytes: known exactly for the 17 table indices with a
    consistent multi-byte flag (bits 5 and 6 are ignored) -/
theorem known_bytes : ∀ b : Fin 256,
    Base.known b.val = (decide (b.val % 32 < 17) && (decide (b.val ≥ 128) == decide (Base.size b.val > 1))) := by
  decide +kernel

/-- a definition whose base type is not known is rejected, whatever message and field it names -/
theorem unknown_base_rejected (P : Profile) (g : Nat) (fd : FieldDef) (h : Base.known fd.btype = false) :
    validateFieldDef P g fd = false := by
  simp [validateFieldDef, h]

/-- a non-string definition smaller than its own base type is rejected (no short reads of
    `tmp[:dsize]` by `Uint16/Uint32`) -/
theorem short_definition_rejected (P : Profile) (g : Nat) (fd : FieldDef)
    (hs : fd.btype ≠ Base.string) (h : fd.size < Base.size fd.btype) :
    validateFieldDef P g fd = false := by
  unfold validateFieldDef
  split
  · rfl
  · simp only [hs, ↓reduceIte, h]

/-- for a listed scalar field an accepted definition is never wider than the profile type -/
theorem accepted_not_wider (P : Profile) (g : Nat) (fd : FieldDef) (pf : PField)
    (hk : P.known g = true) (hf : P.getField g fd.num = some pf)
    (hs : fd.btype ≠ Base.string) (ha : tcArray pf.tcode = false)
    (h : validateFieldDef P g fd = true) : fd.size ≤ Base.size (tcBase pf.tcode) := by
  unfold validateFieldDef at h
  simp only [hk, ↓reduceIte, hf, hs, ha] at h
  split at h
  · cases h
  · split at h
    · cases h
    · simp only [Bool.not_false, ↓reduceIte] at h
      split at h
      · cases h
      · omega

/-- the buffered reader never pulls bytes beyond the frame (no over-read): see C10 -/
theorem no_overread (P : Profile) (m : Mode) (g : Globals) (r : Reader) :
    let sp := runSpec (decodeProg P m g) { rest := r.data, stop := r.stop, taken := r.pos, frameEnd := 0 }
    (runBuffered (decodeProg P m g) r).2.pos = sp.2.taken ∨ (runBuffered (decodeProg P m g) r).2.pos ≤ sp.2.frameEnd :=
  (run_refines (decodeProg P m g) r 0).2.2

/-- the regenerated profile satisfies the well-formedness predicate the reflection accesses rely on -/
theorem gen_wf : ProfileWF Gen.profile = true := by decide +kernel

/-- non-vacuity: a narrow definition (1-byte uint8 for the uint16 field record.heart... i.e.
    session.total_calories) is admitted -/
example : validateFieldDef Gen.profile 18 ⟨11, 1, Base.uint8⟩ = true := by decide +kernel

end Fit.Props.C01
