import FitProofs.Untouched
import FitModel.Items
import FitModel.WF
import FitModel.Gen.Profile
import FitProofs.Framing
import FitProofs.WholeFile
/-!
  C02 — decoded field values equal the values carried on the wire.

  `wireNat arch raw` is the unsigned integer the bytes denote in the definition's byte order,
  `toSigned bits` its two's-complement reading.  The theorems state what `parseFitField`,
  `parseFitFieldArray`, and the time/coordinate branches of `applyField` store for a definition
  of each base type, into a struct field of the Go kind the profile calls for (`slotOfType`).
  The record machine (`stepItem`) applies these functions field by field; FitProofs/Framing.lean
  connects it with the byte-level parser.
-/
namespace Fit.Props.C02
open Fit

/-- unsigned value of the wire bytes in the definition's byte order -/
def wireNat (arch : Endian) (raw : Bytes) : Nat := arch.dec raw

theorem leNat_lt (bs : Bytes) : leNat bs < 256 ^ bs.length := by
  induction bs with
  | nil => simp [leNat]
  | cons b bs ih =>
    simp only [leNat, List.length_cons, Nat.pow_succ]
    have := b.toNat_lt
    omega

theorem beNat_lt_aux (bs : Bytes) (acc : Nat) :
    bs.foldl (fun acc b => acc * 256 + b.toNat) acc < (acc + 1) * 256 ^ bs.length := by
  induction bs generalizing acc with
  | nil => simp
  | cons b bs ih =>
    simp only [List.foldl_cons, List.length_cons, Nat.pow_succ]
    have h1 := ih (acc * 256 + b.toNat)
    have hb := b.toNat_lt
    calc _ < (acc * 256 + b.toNat + 1) * 256 ^ bs.length := h1
      _ ≤ ((acc + 1) * 256) * 256 ^ bs.length := Nat.mul_le_mul_right _ (by omega)
      _ = (acc + 1) * (256 ^ bs.length * 256) := by rw [Nat.mul_assoc, Nat.mul_comm 256]

theorem wireNat_lt (arch : Endian) (raw : Bytes) : wireNat arch raw < 256 ^ raw.length := by
  cases arch with
  | le => exact leNat_lt raw
  | be =>
    have := beNat_lt_aux raw 0
    simpa [wireNat, Endian.dec, beNat] using this

theorem ite_eq_of {α} (c : Prop) [Decidable c] (a b x : α) (h1 : c → a = x) (h2 : ¬c → b = x) :
    (if c then a else b) = x := by
  split
  · exact h1 ‹_›
  · exact h2 ‹_›

theorem ite_prop_of {α} (c : Prop) [Decidable c] (a b : α) (Q : α → Prop) (h1 : c → Q a) (h2 : ¬c → Q b) :
    Q (if c then a else b) := by
  split
  · exact h1 ‹_›
  · exact h2 ‹_›

/-- two's complement survives the detour through `int64` that `reflect.Value.SetInt` takes -/
theorem signed_roundtrip (W : Nat) (hW : W = 8 ∨ W = 16 ∨ W = 32 ∨ W = 64) (z : Int)
    (hlo : -(2 ^ (W - 1) : Int) ≤ z) (hhi : z < (2 ^ (W - 1) : Int)) :
    toSigned W (toUnsigned 64 z) = z := by
  rcases hW with rfl | rfl | rfl | rfl <;>
  · simp only [toSigned, toUnsigned, Nat.reducePow, Nat.reduceSub, Int.reducePow] at *
    apply ite_eq_of <;> intro h <;> omega

theorem toSigned_cases (bits n : Nat) :
    (n % 2 ^ bits < 2 ^ (bits - 1) ∧ toSigned bits n = ((n % 2 ^ bits : Nat) : Int)) ∨
    (¬ n % 2 ^ bits < 2 ^ (bits - 1) ∧ toSigned bits n = ((n % 2 ^ bits : Nat) : Int) - ((2 ^ bits : Nat) : Int)) := by
  unfold toSigned
  simp only
  split
  · left; exact ⟨‹_›, rfl⟩
  · right; exact ⟨‹_›, rfl⟩

/-- the two's-complement reading of a `bits`-wide value lies in the signed range -/
theorem toSigned_range (bits : Nat) (hb : bits = 8 ∨ bits = 16 ∨ bits = 32) (n : Nat) :
    -(2 ^ (bits - 1) : Int) ≤ toSigned bits n ∧ toSigned bits n < (2 ^ (bits - 1) : Int) := by
  rcases hb with rfl | rfl | rfl <;>
  · rcases toSigned_cases _ n with ⟨h1, h2⟩ | ⟨h1, h2⟩ <;>
    · rw [h2]
      simp only [Nat.reducePow, Nat.reduceSub, Int.reducePow] at *
      omega

/-- widening a `w`-bit two's-complement value into a wider signed slot preserves it -/
theorem widen_signed (w W : Nat) (hw : w = 8 ∨ w = 16 ∨ w = 32) (hW : W = 8 ∨ W = 16 ∨ W = 32 ∨ W = 64)
    (hle : w ≤ W) (n : Nat) :
    setInt (.sc (.i W)) (toSigned w n) = some (.i (toSigned w n)) := by
  have hr := toSigned_range w hw n
  simp only [setInt]
  congr 2
  apply signed_roundtrip W hW
  · rcases hw with rfl | rfl | rfl <;> rcases hW with rfl | rfl | rfl | rfl <;>
      simp only [Nat.reduceSub, Int.reducePow] at * <;> omega
  · rcases hw with rfl | rfl | rfl <;> rcases hW with rfl | rfl | rfl | rfl <;>
      simp only [Nat.reduceSub, Int.reducePow] at * <;> omega

/-- widening an unsigned value below `2^W` into an unsigned slot preserves it -/
theorem widen_unsigned (W v : Nat) (h : v < 2 ^ W) : setUint (.sc (.u W)) v = some (.u v) := by
  simp [setUint, Nat.mod_eq_of_lt h]

/-! ### scalar fields, by definition base type -/

/-- sint8 / sint16 / sint32 definitions store the two's-complement value of the wire bytes,
    value-preservingly widened to the (possibly wider) signed struct field — also for
    definitions narrower than the profile type, in either byte order. -/
theorem signed_field_denotes (arch : Endian) (fd : FieldDef) (W : Nat) (raw : Bytes)
    (hW : W = 8 ∨ W = 16 ∨ W = 32 ∨ W = 64) :
    (fd.btype = Base.sint8 → raw.length = 1 → 8 ≤ W →
      parseFitField arch fd (.sc (.i W)) raw = .ok (some (.i (toSigned 8 (wireNat arch raw))))) ∧
    (fd.btype = Base.sint16 → raw.length = 2 → 16 ≤ W →
      parseFitField arch fd (.sc (.i W)) raw = .ok (some (.i (toSigned 16 (wireNat arch raw))))) ∧
    (fd.btype = Base.sint32 → raw.length = 4 → 32 ≤ W →
      parseFitField arch fd (.sc (.i W)) raw = .ok (some (.i (toSigned 32 (wireNat arch raw))))) := by
  refine ⟨?_, ?_, ?_⟩
  · intro hb hl hw
    match raw, hl with
    | [x], _ =>
      have hd : wireNat arch [x] = x.toNat := by cases arch <;> simp [wireNat, Endian.dec, leNat, beNat]
      unfold parseFitField
      simp only [hb, Base.sint8, Base.byte, Base.enum, Base.uint8, Base.uint8z]
      simp [widen_signed 8 W (Or.inl rfl) hW hw, hd]
  · intro hb hl hw
    unfold parseFitField
    simp only [hb, Base.sint16, Base.sint8, Base.byte, Base.enum, Base.uint8, Base.uint8z]
    have : raw.take 2 = raw := List.take_of_length_le (by omega)
    simp [hl, this, widen_signed 16 W (Or.inr (Or.inl rfl)) hW hw, wireNat]
  · intro hb hl hw
    unfold parseFitField
    simp only [hb, Base.sint32, Base.sint16, Base.sint8, Base.byte, Base.enum, Base.uint8, Base.uint8z,
      Base.uint16, Base.uint16z]
    have : raw.take 4 = raw := List.take_of_length_le (by omega)
    simp [hl, this, widen_signed 32 W (Or.inr (Or.inr rfl)) hW hw, wireNat]

/-- unsigned definitions (enum, byte, uint8(z), uint16(z), uint32(z)) store the unsigned value of
    the wire bytes, value-preservingly widened. -/
theorem unsigned_field_denotes (arch : Endian) (fd : FieldDef) (W : Nat) (raw : Bytes) :
    ((fd.btype = Base.enum ∨ fd.btype = Base.byte ∨ fd.btype = Base.uint8 ∨ fd.btype = Base.uint8z) →
      raw.length = 1 → 8 ≤ W →
      parseFitField arch fd (.sc (.u W)) raw = .ok (some (.u (wireNat arch raw)))) ∧
    ((fd.btype = Base.uint16 ∨ fd.btype = Base.uint16z) → raw.length = 2 → 16 ≤ W →
      parseFitField arch fd (.sc (.u W)) raw = .ok (some (.u (wireNat arch raw)))) ∧
    ((fd.btype = Base.uint32 ∨ fd.btype = Base.uint32z) → raw.length = 4 → 32 ≤ W →
      parseFitField arch fd (.sc (.u W)) raw = .ok (some (.u (wireNat arch raw)))) := by
  refine ⟨?_, ?_, ?_⟩
  · intro hb hl hw
    match raw, hl with
    | [x], _ =>
      have hd : wireNat arch [x] = x.toNat := by cases arch <;> simp [wireNat, Endian.dec, leNat, beNat]
      have hlt : x.toNat < 2 ^ W := by
        have := x.toNat_lt
        calc x.toNat < 2 ^ 8 := by simpa using this
          _ ≤ 2 ^ W := Nat.pow_le_pow_right (by decide) hw
      unfold parseFitField
      rcases hb with hb | hb | hb | hb <;>
        simp [hb, Base.byte, Base.enum, Base.uint8, Base.uint8z, widen_unsigned W _ hlt, hd]
  · intro hb hl hw
    have hlt : wireNat arch raw < 2 ^ W := by
      have := wireNat_lt arch raw
      rw [hl] at this
      calc _ < 256 ^ 2 := this
        _ = 2 ^ 16 := by decide
        _ ≤ 2 ^ W := Nat.pow_le_pow_right (by decide) hw
    have ht : raw.take 2 = raw := List.take_of_length_le (by omega)
    unfold parseFitField
    rcases hb with hb | hb <;>
    · simp only [hb, Base.byte, Base.enum, Base.uint8, Base.uint8z, Base.sint8, Base.sint16, Base.uint16, Base.uint16z,
        hl, ht]
      simp only [show arch.dec raw = wireNat arch raw from rfl, widen_unsigned W _ hlt]
      simp
  · intro hb hl hw
    have hlt : wireNat arch raw < 2 ^ W := by
      have := wireNat_lt arch raw
      rw [hl] at this
      calc _ < 256 ^ 4 := this
        _ = 2 ^ 32 := by decide
        _ ≤ 2 ^ W := Nat.pow_le_pow_right (by decide) hw
    have ht : raw.take 4 = raw := List.take_of_length_le (by omega)
    unfold parseFitField
    rcases hb with hb | hb <;>
    · simp only [hb, Base.byte, Base.enum, Base.uint8, Base.uint8z, Base.sint8, Base.sint16, Base.uint16, Base.uint16z,
        Base.sint32, Base.uint32, Base.uint32z, hl, ht]
      simp only [show arch.dec raw = wireNat arch raw from rfl, widen_unsigned W _ hlt]
      simp

/-- strings: the bytes up to the first NUL; an empty string leaves the field at its invalid value -/
theorem string_field_denotes (arch : Endian) (fd : FieldDef) (raw : Bytes) (hb : fd.btype = Base.string) :
    parseFitField arch fd (.sc .s) raw =
      .ok (if (raw.takeWhile (· != 0)).isEmpty then none else some (.s (raw.takeWhile (· != 0)))) := by
  unfold parseFitField
  simp [hb, Base.string, Base.byte, Base.enum, Base.uint8, Base.uint8z, Base.sint8, Base.sint16, Base.uint16,
    Base.uint16z, Base.sint32, Base.uint32, Base.uint32z, Base.float32, Base.float64]
  split <;> simp_all

/-- non-vacuity: 0xFF as sint8 into an int16 field is −1; 0x1234 big-endian as uint16 into a uint32 field -/
example : parseFitField .le ⟨9, 1, Base.sint8⟩ (.sc (.i 16)) [0xFF] = .ok (some (.i (-1))) := by rfl
example : parseFitField .be ⟨5, 2, Base.uint16⟩ (.sc (.u 32)) [0x12, 0x34] = .ok (some (.u 0x1234)) := by rfl

/-- **Framing (byte parser = record machine).** On the serialisation of any list of items that fit
    the definitions live when they are reached, the byte-level record loop of the decoder arrives
    at exactly the state the record machine `stepItems` computes (and at the loop over whatever
    follows), or stops with the same error class. The theorems of this file about the record machine
    are therefore theorems about the decoder on every such stream. -/
theorem byte_parser_is_record_machine (P : Profile) (limit : Nat) (cont : DecSt → DP) (its : List Item) (fuel : Nat)
    (st : DecSt) (n : Nat) (s : SpecSt) (tail : Bytes) (hfit : ItemsFit P st its)
    (hs : s.rest = serialize its ++ tail) (hl : n + (serialize its).length ≤ limit) (hn : st.n = n) :
    match stepItems P st its with
    | .ok st' =>
      runSpecD limit (decodeFileData P limit (fuel + its.length) st cont) n s =
        runSpecD limit (decodeFileData P limit fuel st' cont) (n + (serialize its).length)
          { s with rest := tail, taken := s.taken + (serialize its).length } ∧ st'.n = n + (serialize its).length
    | .stop o =>
      ∃ e, (runSpecD limit (decodeFileData P limit (fuel + its.length) st cont) n s).1 = .inl e ∧
        e.err = (exitOf o).err :=
  run_items P limit cont its fuel st n s tail hfit hs hl hn

/-- **Whole-file framing.** Any list of items that starts with a file_id definition and its data
    record and fits (each data record carries what the definition live for its local type declares),
    laid out as a FIT writer does (a header of any of the three kinds readers accept — 12 bytes,
    14 bytes with a zero CRC field, 14 bytes with its CRC — then records, then the file CRC) and followed by
    anything: if the record machine accepts the items, `Decode` succeeds on those bytes and returns
    exactly the record machine's state — the File with every message routed, the definition table,
    the timestamp reference and the counters — with the file CRC recorded. Together with the
    per-field theorems above: every field of every message of every well-formed file holds the
    value its own wire bytes denote. -/
theorem whole_file_framing (P : Profile) (o : Opts) (k : HdrKind) (g : Globals) (proto profile : Nat)
    (d0 : DefMsg) (b0 : Bool) (fs dev : List Bytes) (rest : List Item) (tail : Bytes) (stop : Stop) (st' : DecSt)
    (hp : proto < 256) (hp2 : proto / 16 ≤ protoMajorMax)
    (hwf0 : DefnWF d0 b0) (hg : d0.global = mnFileId) (hkn : P.known mnFileId = true)
    (hlen : (serialize (.defn d0 b0 :: .data d0.localT fs dev :: rest)).length < 4294967296)
    (hfit : ItemsFitD P (List.replicate 16 none) (.defn d0 b0 :: .data d0.localT fs dev :: rest))
    (hrun : runItems P (afterHeader k g proto profile (serialize (.defn d0 b0 :: .data d0.localT fs dev :: rest)).length).hdr g
      (.defn d0 b0 :: .data d0.localT fs dev :: rest)
      (afterHeader k g proto profile (serialize (.defn d0 b0 :: .data d0.localT fs dev :: rest)).length).crc = .ok st') :
    (decodeSpec P o .full g
      (frameBytesK k proto profile (serialize (.defn d0 b0 :: .data d0.localT fs dev :: rest)) ++ tail) stop).1 =
      finalize o (okOut { st' with
        crc := 0#16,
        file := st'.file.map fun f => { f with crc := (Crc.checksum (frameHdr k proto profile
          (serialize (.defn d0 b0 :: .data d0.localT fs dev :: rest)).length ++
          serialize (.defn d0 b0 :: .data d0.localT fs dev :: rest))).toNat } }) :=
  decode_frame_ok P o k g proto profile d0 b0 fs dev rest tail stop st' hp hp2 hwf0 hg hkn hlen hfit hrun


/-- **An unknown field is skipped**: a field number the profile does not list for the message changes
    neither the message under construction nor the timestamp reference (its bytes were consumed by
    the reader — Framing — and nothing else happens). -/
theorem unknown_field_skipped (P : Profile) (dm : DefMsg) (known : Bool) (fd : FieldDef) (raw : Bytes) (m : Option Msg)
    (ts : TsRef) (h : P.getField dm.global fd.num = none) :
    applyField P dm known fd raw m ts = .ok m ts := by
  unfold applyField
  rw [h]

/-- **Fields that are not present hold their type's invalid value, and no field disturbs its
    neighbours.** Decode a data record of a known message under any definition, starting — as the
    decoder does — from the constructor's message. Every struct field that none of the definition's
    field numbers designates in the profile (it is absent from the definition; the definition may
    list other fields, unlisted field numbers, developer fields) holds in the decoded message exactly
    what the constructor put there: by `entry_invalid` (C15) the invalid value of its type. -/
theorem absent_fields_stay_invalid (P : Profile) (dm : DefMsg) (raws : List Bytes) (pm : PMsg) (st : DecSt)
    (m' : Option Msg) (st' : DecSt)
    (h : stepFields P dm true dm.fields raws (some ⟨dm.global, pm.invalid⟩) st = .ok m' st') (i : Nat)
    (hi : ∀ fd ∈ dm.fields, ∀ pf, P.getField dm.global fd.num = some pf → pf.sindex ≠ i) :
    ∃ msg', m' = some msg' ∧ msg'.num = dm.global ∧ msg'.vals[i]? = pm.invalid[i]? :=
  stepFields_untouched P dm true dm.fields raws ⟨dm.global, pm.invalid⟩ st m' st' h i hi

/-- one field writes one struct position: whatever a field of the record carries, the decoded
    message differs from the message before it at most at the struct position of that field's
    profile entry -/
theorem field_writes_own_position (P : Profile) (dm : DefMsg) (known : Bool) (fd : FieldDef) (raw : Bytes) (msg : Msg)
    (ts : TsRef) (m' : Option Msg) (ts' : TsRef) (h : applyField P dm known fd raw (some msg) ts = .ok m' ts') :
    m' = some msg ∨ ∃ pf v, P.getField dm.global fd.num = some pf ∧
      m' = some { msg with vals := setAt msg.vals pf.sindex v } :=
  applyField_shape P dm known fd raw msg ts m' ts' h

/-! ### time and coordinate fields defined narrower than the profile type -/

/-- A time or coordinate field defined one or two bytes wide with a signed base type is widened to
    the profile's four bytes by sign extension of *its own* most significant byte: the four-byte
    value read back is the two's-complement value of the narrow field, in either byte order —
    whatever was in the scratch buffer before. -/
theorem narrow_signed_widens (arch : Endian) (btype : Nat) (hs : Base.signed btype = true) (hi : Base.integer btype = true) :
    (∀ x : UInt8, toSigned 32 (arch.dec ((padTmp arch btype [x] 1 4).take 4)) = toSigned 8 (wireNat arch [x])) ∧
    (∀ x y : UInt8, toSigned 32 (arch.dec ((padTmp arch btype [x, y] 2 4).take 4)) = toSigned 16 (wireNat arch [x, y])) := by
  have e255 : (255 : UInt8).toNat = 255 := rfl
  have e0 : (0 : UInt8).toNat = 0 := rfl
  constructor
  · intro x
    have hx := x.toNat_lt
    cases arch <;> simp only [padTmp, wireNat, Endian.dec, hs, hi, List.getLastD, List.headD]
    · by_cases h : x.toNat ≥ 128
      · simp [h, List.replicate, leNat, toSigned, e255]; omega
      · simp [h, List.replicate, leNat, toSigned, e0]; omega
    · by_cases h : x.toNat ≥ 128
      · simp [h, List.replicate, beNat, toSigned, e255]; omega
      · simp [h, List.replicate, beNat, toSigned, e0]; omega
  · intro x y
    have hx := x.toNat_lt
    have hy := y.toNat_lt
    cases arch <;> simp only [padTmp, wireNat, Endian.dec, hs, hi, List.getLastD, List.headD]
    · by_cases h : y.toNat ≥ 128
      · simp [h, List.replicate, leNat, toSigned, e255]; omega
      · simp [h, List.replicate, leNat, toSigned, e0]; omega
    · by_cases h : x.toNat ≥ 128
      · simp [h, List.replicate, beNat, toSigned, e255]; omega
      · simp [h, List.replicate, beNat, toSigned, e0]; omega


/-- … and so a longitude defined as one or two signed bytes decodes to the two's-complement value of
    those bytes (big- or little-endian), not to something that depends on the bytes read before it. -/
theorem narrow_longitude_denotes (P : Profile) (dm : DefMsg) (fd : FieldDef) (pf : PField) (pm : PMsg) (msg : Msg)
    (ts : TsRef)
    (hf : P.getField dm.global fd.num = some pf) (hpm : P.msg? dm.global = some pm)
    (hb : tcBase pf.tcode = Base.sint32) (ha : tcArray pf.tcode = false) (hk : tcKind pf.tcode = .lng)
    (hl : pm.layout[pf.sindex]? = some .lng)
    (hs : Base.signed fd.btype = true) (hi : Base.integer fd.btype = true) :
    (∀ x : UInt8, fd.size = 1 →
      applyField P dm true fd [x] (some msg) ts =
        .ok (some { msg with vals := setAt msg.vals pf.sindex (.lng (toSigned 8 (wireNat dm.arch [x]))) }) ts) ∧
    (∀ x y : UInt8, fd.size = 2 →
      applyField P dm true fd [x, y] (some msg) ts =
        .ok (some { msg with vals := setAt msg.vals pf.sindex (.lng (toSigned 16 (wireNat dm.arch [x, y]))) }) ts) := by
  obtain ⟨h1, h2⟩ := narrow_signed_widens dm.arch fd.btype hs hi
  have hsz : Base.size Base.sint32 = 4 := by decide
  have hne : Base.sint32 ≠ Base.string := by decide
  have hc : (Base.sint32 ≠ Base.string ∧ (!false) = true ∧ Kind.lng ≠ Kind.native) = True := by
    simp only [eq_iff_iff, iff_true]; exact ⟨hne, rfl, by decide⟩
  have l1 : ∀ x : UInt8, (padTmp dm.arch fd.btype [x] 1 4).length = 4 := by
    intro x; unfold padTmp; cases dm.arch <;> simp
  have l2 : ∀ x y : UInt8, (padTmp dm.arch fd.btype [x, y] 2 4).length = 4 := by
    intro x y; unfold padTmp; cases dm.arch <;> simp
  constructor
  · intro x hsize
    unfold applyField
    simp only [hf, hpm, hb, ha, hk, hl, hsize, hsz, hc, if_true, l1, h1]
    simp
  · intro x y hsize
    unfold applyField
    simp only [hf, hpm, hb, ha, hk, hl, hsize, hsz, hc, if_true, l2, h2]
    simp

/-- … and with an unsigned (or non-integer) base type by zero extension: the four-byte value is the
    unsigned value of the narrow field. -/
theorem narrow_unsigned_widens (arch : Endian) (btype : Nat) (hs : (Base.signed btype && Base.integer btype) = false) :
    (∀ x : UInt8, arch.dec ((padTmp arch btype [x] 1 4).take 4) = wireNat arch [x]) ∧
    (∀ x y : UInt8, arch.dec ((padTmp arch btype [x, y] 2 4).take 4) = wireNat arch [x, y]) := by
  have e0 : (0 : UInt8).toNat = 0 := rfl
  have hf : ∀ n : Nat, (Base.signed btype = true ∧ Base.integer btype = true ∧ n ≥ 128) = False := by
    intro n
    simp only [eq_iff_iff, iff_false, not_and]
    intro h1 h2
    rw [h1, h2] at hs; cases hs
  constructor
  · intro x
    cases arch <;> simp only [padTmp, wireNat, Endian.dec, List.getLastD, List.headD, hf] <;>
      simp [List.replicate, leNat, beNat, e0]
  · intro x y
    cases arch <;> simp only [padTmp, wireNat, Endian.dec, List.getLastD, List.headD, hf] <;>
      simp [List.replicate, leNat, beNat, e0]

/-- a latitude defined as one or two signed bytes: the two's-complement value of its own bytes
    (always within ±90°, so `NewLatitude` keeps it) -/
theorem narrow_latitude_denotes (P : Profile) (dm : DefMsg) (fd : FieldDef) (pf : PField) (pm : PMsg) (msg : Msg)
    (ts : TsRef)
    (hf : P.getField dm.global fd.num = some pf) (hpm : P.msg? dm.global = some pm)
    (hb : tcBase pf.tcode = Base.sint32) (ha : tcArray pf.tcode = false) (hk : tcKind pf.tcode = .lat)
    (hl : pm.layout[pf.sindex]? = some .lat)
    (hs : Base.signed fd.btype = true) (hi : Base.integer fd.btype = true) :
    (∀ x : UInt8, fd.size = 1 →
      applyField P dm true fd [x] (some msg) ts =
        .ok (some { msg with vals := setAt msg.vals pf.sindex (.lat (toSigned 8 (wireNat dm.arch [x]))) }) ts) ∧
    (∀ x y : UInt8, fd.size = 2 →
      applyField P dm true fd [x, y] (some msg) ts =
        .ok (some { msg with vals := setAt msg.vals pf.sindex (.lat (toSigned 16 (wireNat dm.arch [x, y]))) }) ts) := by
  obtain ⟨h1, h2⟩ := narrow_signed_widens dm.arch fd.btype hs hi
  have hsz : Base.size Base.sint32 = 4 := by decide
  have hne : Base.sint32 ≠ Base.string := by decide
  have hc : (Base.sint32 ≠ Base.string ∧ (!false) = true ∧ Kind.lat ≠ Kind.native) = True := by
    simp only [eq_iff_iff, iff_true]; exact ⟨hne, rfl, by decide⟩
  have l1 : ∀ x : UInt8, (padTmp dm.arch fd.btype [x] 1 4).length = 4 := by
    intro x; unfold padTmp; cases dm.arch <;> simp
  have l2 : ∀ x y : UInt8, (padTmp dm.arch fd.btype [x, y] 2 4).length = 4 := by
    intro x y; unfold padTmp; cases dm.arch <;> simp
  have r8 : ∀ n : Nat, -128 ≤ toSigned 8 n ∧ toSigned 8 n ≤ 127 := by
    intro n; unfold toSigned; simp only; split <;> omega
  have r16 : ∀ n : Nat, -32768 ≤ toSigned 16 n ∧ toSigned 16 n ≤ 32767 := by
    intro n; unfold toSigned; simp only; split <;> omega
  constructor
  · intro x hsize
    unfold applyField
    simp only [hf, hpm, hb, ha, hk, hl, hsize, hsz, hc, if_true, l1, h1]
    have := r8 (wireNat dm.arch [x])
    simp
    split <;> first | rfl | omega | (split <;> first | rfl | omega)
  · intro x y hsize
    unfold applyField
    simp only [hf, hpm, hb, ha, hk, hl, hsize, hsz, hc, if_true, l2, h2]
    have := r16 (wireNat dm.arch [x, y])
    simp
    split <;> first | rfl | omega | (split <;> first | rfl | omega)

/-- non-vacuity on the regenerated profile: record.position_long (message 20, field 1) is such a field -/
example : (match Gen.profile.getField 20 1, Gen.profile.msg? 20 with
    | some pf, some pm => (tcBase pf.tcode == Base.sint32) && !tcArray pf.tcode && (tcKind pf.tcode == .lng) &&
        (pm.layout[pf.sindex]? == some .lng) && Base.signed Base.sint16 && Base.integer Base.sint16
    | _, _ => false) = true := by
  decide +kernel

end Fit.Props.C02
