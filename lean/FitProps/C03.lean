import FitModel.Items
import FitModel.Gen.Profile
import FitProofs.ListLemmas
/-!
  C03 — messages are routed, in order, to the typed container of the file's type.
-/
namespace Fit.Props.C03
open Fit

/-- does the container hold messages of this number? -/
def holds (c : Container) (m : Msg) : Bool := (slotFor c m.num).isSome

/-- component expansion applied, in stream order, to the messages the container holds -/
def expandOne (P : Profile) (m : Msg) (g : Globals) : Msg × Globals :=
  if expandSet.contains m.num then expand P m g else (m, g)

def expandAll (P : Profile) : Globals → List Msg → List Msg × Globals
  | g, [] => ([], g)
  | g, m :: ms =>
    let r := expandOne P m g
    let rest := expandAll P r.2 ms
    (r.1 :: rest.1, rest.2)

/-- what a slot holds after `stored` arrived, starting from `old` -/
def slotSpec (many : Bool) (old : List Msg) (stored : List Msg) : List Msg :=
  if many then old ++ stored
  else match stored.getLast? with
    | some m => [m]
    | none => old

theorem slotSpec_nil (many : Bool) (old : List Msg) : slotSpec many old [] = old := by
  unfold slotSpec; cases many <;> simp

theorem slotSpec_cons (many : Bool) (old : List Msg) (m : Msg) (ms : List Msg) :
    slotSpec many old (m :: ms) = slotSpec many (if many then old ++ [m] else [m]) ms := by
  unfold slotSpec
  cases many
  · simp only [Bool.false_eq_true, ↓reduceIte]
    cases ms with
    | nil => simp
    | cons x xs =>
      simp only [List.getLast?_cons_cons]
      cases hgl : (x :: xs).getLast? with
      | none => simp at hgl
      | some y => rfl
  · simp

/-- `expand` never changes the message number -/
theorem setU_num (m : Msg) (i n : Nat) : (m.setU i n).num = m.num := rfl

theorem copyIfValid_num (pm : PMsg) (m : Msg) (a b : String) (inv : Nat) :
    (copyIfValid pm m a b inv).num = m.num := by
  unfold copyIfValid
  split
  · split
    · split <;> rfl
    · rfl
  · rfl

theorem expandCsd_num (pm : PMsg) (m : Msg) (g : Globals) : (expandCsd pm m g).1.num = m.num := by
  unfold expandCsd
  split
  · split
    · split <;> rfl
    · rfl
  · rfl

theorem expandCycles_num (pm : PMsg) (m : Msg) (g : Globals) : (expandCycles pm m g).1.num = m.num := by
  unfold expandCycles
  split
  · split
    · split <;> rfl
    · rfl
  · rfl

theorem expandPower_num (pm : PMsg) (m : Msg) (g : Globals) : (expandPower pm m g).1.num = m.num := by
  unfold expandPower
  split
  · split
    · split <;> rfl
    · rfl
  · rfl

theorem expandRecord_num (pm : PMsg) (m : Msg) (g : Globals) : (expandRecord pm m g).1.num = m.num := by
  unfold expandRecord
  simp only [expandPower_num, expandCycles_num, expandCsd_num, copyIfValid_num]

theorem expandEventData_num (pm : PMsg) (m : Msg) (d ev : Nat) : (expandEventData pm m d ev).num = m.num := by
  unfold expandEventData
  split
  · split
    · split <;> rfl
    · split
      · split <;> rfl
      · rfl
  · rfl

theorem expandEvent_num (pm : PMsg) (m : Msg) : (expandEvent pm m).num = m.num := by
  unfold expandEvent
  simp only
  split
  · split
    · rw [expandEventData_num, copyIfValid_num]
    · exact copyIfValid_num _ _ _ _ _
  · exact copyIfValid_num _ _ _ _ _

theorem expand_num (P : Profile) (m : Msg) (g : Globals) : (expand P m g).1.num = m.num := by
  unfold expand
  split
  · rfl
  · split
    · exact expandRecord_num _ _ _
    · split
      · simp [expandSpeedAlt5, copyIfValid_num]
      · split
        · simp [expandSegmentLap, copyIfValid_num]
        · split
          · exact expandEvent_num _ _
          · rfl

theorem expandOne_num (P : Profile) (m : Msg) (g : Globals) : (expandOne P m g).1.num = m.num := by
  unfold expandOne; split
  · exact expand_num _ _ _
  · rfl

/-- all messages of a stream through the attached container -/
def routeAll (P : Profile) (c : Container) (sl : List (List Msg)) (g : Globals) (ms : List Msg) :
    List (List Msg) × Globals :=
  ms.foldl (fun (acc : List (List Msg) × Globals) m => containerAdd P c acc.1 m acc.2) (sl, g)

/-- **Routing refines the container specification.**  Folding `containerAdd` over any message
    sequence leaves in slot `i` exactly the (expanded) messages whose type that slot holds, in
    stream order for slice slots, the last one for single slots; messages of types the container
    does not hold have no effect on any slot nor on the accumulators. -/
theorem route_spec (P : Profile) (c : Container) (ms : List Msg) (sl : List (List Msg)) (g : Globals)
    (hlen : sl.length = c.slots.length) :
    (routeAll P c sl g ms).2 = (expandAll P g (ms.filter (holds c))).2 ∧
    (routeAll P c sl g ms).1.length = c.slots.length ∧
    ∀ i, i < c.slots.length →
      (routeAll P c sl g ms).1.getD i [] = slotSpec (c.slots.getD i default).many (sl.getD i [])
        ((expandAll P g (ms.filter (holds c))).1.filter (fun m => slotFor c m.num == some i)) := by
  induction ms generalizing sl g with
  | nil =>
    simp only [routeAll, List.foldl_nil, List.filter_nil, expandAll]
    refine ⟨trivial, hlen, fun i _ => ?_⟩
    simp [slotSpec_nil]
  | cons m ms ih =>
    simp only [routeAll, List.foldl_cons]
    simp only [routeAll] at ih
    cases hs : slotFor c m.num with
    | none =>
      have hh : holds c m = false := by simp [holds, hs]
      have hadd : containerAdd P c sl m g = (sl, g) := by simp [containerAdd, hs]
      rw [hadd]
      simp only [List.filter_cons, hh]
      exact ih sl g hlen
    | some j =>
      have hh : holds c m = true := by simp [holds, hs]
      have hj : j < c.slots.length := by
        unfold slotFor at hs
        simp only at hs
        split at hs
        · cases hs; assumption
        · cases hs
      have hadd : containerAdd P c sl m g =
          (setAt sl j (if (c.slots.getD j default).many then sl.getD j [] ++ [(expandOne P m g).1]
                       else [(expandOne P m g).1]), (expandOne P m g).2) := by
        simp only [containerAdd, hs, expandOne]
      rw [hadd]
      have hlen' : (setAt sl j (if (c.slots.getD j default).many then sl.getD j [] ++ [(expandOne P m g).1]
                       else [(expandOne P m g).1])).length = c.slots.length := by
        rw [length_setAt]; exact hlen
      have := ih _ (expandOne P m g).2 hlen'
      simp only [List.filter_cons, hh, ↓reduceIte, expandAll]
      obtain ⟨h1, h2, h3⟩ := this
      refine ⟨h1, h2, ?_⟩
      intro i hi
      rw [h3 i hi]
      have hnum : slotFor c (expandOne P m g).1.num = some j := by rw [expandOne_num]; exact hs
      by_cases hij : j = i
      · subst hij
        rw [getD_setAt_eq _ _ _ _ (by rw [hlen]; exact hj)]
        simp only [List.filter_cons, hnum, beq_self_eq_true, ↓reduceIte]
        rw [slotSpec_cons]
      · rw [getD_setAt_ne _ _ _ _ _ hij]
        have : (slotFor c (expandOne P m g).1.num == some i) = false := by
          rw [hnum]; simp [hij]
        simp only [List.filter_cons, this, Bool.false_eq_true, ↓reduceIte]

/-- Messages handled by `File.add` itself (file_id, file_creator, timestamp_correlation,
    field_description, developer_data_id) never reach the container. -/
theorem common_first (P : Profile) (f f' : FileSt) (m : Msg) (g g' : Globals)
    (hc : m.num = mnFileId ∨ m.num = mnFileCreator ∨ m.num = mnTimestampCorrelation ∨
          m.num = mnFieldDescription ∨ m.num = mnDeveloperDataId)
    (h : f.add P m g = some (f', g')) : f'.slots = f.slots ∧ g' = g := by
  unfold FileSt.add at h
  rcases hc with hc | hc | hc | hc | hc <;> simp [hc, mnFileId, mnFileCreator, mnTimestampCorrelation,
    mnFieldDescription, mnDeveloperDataId] at h <;> obtain ⟨h1, h2⟩ := h <;> subst h1 <;> exact ⟨rfl, h2.symm⟩

/-- the decidable facts about the regenerated container tables used with `route_spec` -/
def RoutersWF (P : Profile) : Bool :=
  P.containers.all (fun c =>
    -- every slot is the first one for its message number: each hosted type has exactly one slot
    (List.range c.slots.length).all (fun i => slotFor c (c.slots.getD i default).msg == some i)
    -- and every hosted type is a known message with a struct type
    && c.slots.all (fun s => P.known s.msg && !(s.msg == mnFileId || s.msg == mnFileCreator ||
         s.msg == mnTimestampCorrelation || s.msg == mnFieldDescription || s.msg == mnDeveloperDataId)))
  && P.fileTypes.length == 256

theorem gen_routers_wf : RoutersWF Gen.profile = true := by decide +kernel

/-- every file-type value: exactly the 17 hosted types get a container; 0xFF, unknown values and
    the manufacturer range 0xF7–0xFE are rejected (the latter as "not supported") -/
def _root_.Fit.InitAns.isContainer : InitAns → Bool
  | .container _ => true
  | _ => false

theorem init_rejects : ∀ t : Fin 256,
    (Gen.profile.initAns t.val = .notsupported ↔ (0xF7 ≤ t.val ∧ t.val ≤ 0xFE)) ∧
    ((Gen.profile.initAns t.val).isContainer = true ↔
      t.val ∈ [1, 2, 3, 4, 5, 6, 7, 9, 10, 11, 14, 15, 20, 28, 32, 34, 35]) := by
  decide +kernel

/-- distinct hosted file types have distinct containers, and every container is reachable: the
    accessor that matches the file type is the only one that can return the container -/
theorem container_of_type_injective : ∀ s t : Fin 256,
    (Gen.profile.initAns s.val).isContainer = true →
    Gen.profile.initAns s.val = Gen.profile.initAns t.val → s = t := by
  decide +kernel

end Fit.Props.C03

namespace Fit.Props.C03
open Fit

/-- For every file-type value: a hosted type is answered by exactly one accessor and every other
    accessor returns an error; a value that is not hosted is answered by none. -/
theorem accessor_exact : ∀ t : Fin 256,
    (Gen.profile.accessors.filter (fun a => a.2.contains t.val)).length =
      (if (Gen.profile.initAns t.val).isContainer then 1 else 0) := by
  decide +kernel

/-- there are exactly as many accessors as containers -/
theorem accessors_count : Gen.profile.accessors.length = Gen.profile.containers.length := by decide

end Fit.Props.C03
