import FitModel.Decode
import FitProofs.Crc
import FitProofs.CrcTrack
import FitProofs.Chain
import FitModel.Gen.Profile
/-!
  C04 — corruption is detected: CRC verdicts are sound and agree across entry points.

  A burst is a non-zero XOR pattern inside a window of at most 16 consecutive bits *in the order
  the checksum consumes bits* (least-significant bit of each byte first); this includes every
  corruption confined to two adjacent bytes.
-/
namespace Fit.Props.C04
open Fit Fit.Crc

/-- the bit stream the checksum consumes -/
def bitsOf (d : Bytes) : List Bool := d.flatMap (fun b => byteBits b.toBitVec)

theorem specUpdate_bits (c : BitVec 16) (d : Bytes) : specUpdate c d = bitsStep c (bitsOf d) := by
  induction d generalizing c with
  | nil => rfl
  | cons x xs ih =>
    simp only [specUpdate, List.foldl_cons, bitsOf, List.flatMap_cons, bitsStep_append]
    exact ih _

theorem update_bits (c : BitVec 16) (d : Bytes) : update c d = bitsStep c (bitsOf d) := by
  rw [update_eq_specUpdate, specUpdate_bits]

theorem bitsOf_append (a b : Bytes) : bitsOf (a ++ b) = bitsOf a ++ bitsOf b := by
  simp [bitsOf, List.flatMap_append]

theorem bitsOf_length (d : Bytes) : (bitsOf d).length = 8 * d.length := by
  induction d with
  | nil => rfl
  | cons x xs ih =>
    have e : bitsOf (x :: xs) = byteBits x.toBitVec ++ bitsOf xs := by simp [bitsOf]
    rw [e, List.length_append, ih]
    simp [byteBits]; omega

/-- **Burst detection.**  Two byte strings whose checksum bit streams agree outside a window of
    at most 16 bits and differ inside it have different checksums, from any register state — in
    particular, if one has residue 0 (passes the integrity check) the other has not. -/
theorem burst_detected_bits (c : BitVec 16) (xs ys : Bytes) (pre w w' post : List Bool)
    (hx : bitsOf xs = pre ++ w ++ post) (hy : bitsOf ys = pre ++ w' ++ post)
    (hlen : w.length = w'.length) (h16 : w.length ≤ 16) (hne : w ≠ w') :
    update c xs ≠ update c ys := by
  rw [update_bits, update_bits, hx, hy]
  exact burst_changes_register c pre w w' post hlen h16 hne

theorem byteBits_injective (a b : BitVec 8) (h : byteBits a = byteBits b) : a = b := by
  simp only [byteBits, List.cons.injEq, and_true] at h
  ext i hi
  have : i = 0 ∨ i = 1 ∨ i = 2 ∨ i = 3 ∨ i = 4 ∨ i = 5 ∨ i = 6 ∨ i = 7 := by omega
  rcases this with rfl | rfl | rfl | rfl | rfl | rfl | rfl | rfl <;> simp_all [BitVec.getLsbD_eq_getElem]

theorem bitsOf_injective (a b : Bytes) (hl : a.length = b.length) (h : bitsOf a = bitsOf b) : a = b := by
  induction a generalizing b with
  | nil => cases b with
    | nil => rfl
    | cons _ _ => simp at hl
  | cons x xs ih =>
    cases b with
    | nil => simp at hl
    | cons y ys =>
      simp only [bitsOf, List.flatMap_cons] at h
      have h8 : (byteBits x.toBitVec).length = (byteBits y.toBitVec).length := by simp [byteBits]
      have := List.append_inj h h8
      have hxy : x = y := by
        have := byteBits_injective _ _ this.1
        exact UInt8.eq_of_toBitVec_eq this
      rw [hxy, ih ys (by simpa using hl) this.2]

/-- Any corruption confined to one or two adjacent bytes changes the checksum, wherever it is and
    whatever precedes and follows. -/
theorem burst_detected_bytes (c : BitVec 16) (pre w w' post : Bytes)
    (hlen : w.length = w'.length) (h2 : w.length ≤ 2) (hne : w ≠ w') :
    update c (pre ++ w ++ post) ≠ update c (pre ++ w' ++ post) := by
  apply burst_detected_bits c _ _ (bitsOf pre) (bitsOf w) (bitsOf w') (bitsOf post)
  · simp [bitsOf_append]
  · simp [bitsOf_append]
  · rw [bitsOf_length, bitsOf_length, hlen]
  · rw [bitsOf_length]; omega
  · intro h; exact hne (bitsOf_injective _ _ hlen h)

/-- a stream that passes the residue test (checksum of data ++ stored CRC = 0) fails it after any
    such burst -/
theorem residue_broken (xs ys : Bytes) (pre w w' post : List Bool)
    (hx : bitsOf xs = pre ++ w ++ post) (hy : bitsOf ys = pre ++ w' ++ post)
    (hlen : w.length = w'.length) (h16 : w.length ≤ 16) (hne : w ≠ w')
    (hok : checksum xs = 0#16) : checksum ys ≠ 0#16 := by
  intro h
  have := burst_detected_bits 0#16 xs ys pre w w' post hx hy hlen h16 hne
  exact this (by simp only [checksum] at hok h; rw [hok, h])

/-! ### header verdicts -/

/-- accept / reject -/
def accepts : Option ErrClass → Bool
  | none => true
  | some _ => false

def acceptsE {α β} : Except α β → Bool
  | .ok _ => true
  | .error _ => false

theorem u8_toNat (n : Nat) (h : n < 256) : (UInt8.ofNat n).toNat = n := by
  simp [Nat.mod_eq_of_lt h]

theorem leNat_natLE2 (n : Nat) (h : n < 65536) : leNat (natLE 2 n) = n := by
  simp only [natLE, leNat]
  rw [u8_toNat _ (by omega), u8_toNat _ (by omega)]
  omega

/-- the wire form: size byte, then the bytes `decodeHeader` reads next -/
def tail (h : Header) : Bytes :=
  [UInt8.ofNat h.proto] ++ natLE 2 h.profile ++ natLE 4 h.dataSize ++ h.dtype ++
    (if h.size = headerSizeNoCRC then [] else natLE 2 h.crc)

theorem marshal_eq (h : Header) : h.marshal = UInt8.ofNat h.size :: tail h := by
  simp [Header.marshal, Header.marshal.u8', tail]

theorem tail_head (h : Header) : ((tail h).headD 0) = UInt8.ofNat h.proto := by simp [tail]

theorem tail_tag (h : Header) (hd : h.dtype.length = 4) : ((tail h).drop 7).take 4 = h.dtype := by
  match hh : h.dtype, hd with
  | [a, b, c, d], _ => simp [tail, natLE, hh]

theorem tail_crc (h : Header) (hd : h.dtype.length = 4) (hs : h.size ≠ headerSizeNoCRC) :
    ((tail h).drop 11).take 2 = natLE 2 h.crc := by
  match hh : h.dtype, hd with
  | [a, b, c, d], _ => simp [tail, natLE, hh, hs]

theorem crc_of_parts (st : DecSt) (hst : st.crc = 0#16) (h : Header) :
    update (update st.crc [UInt8.ofNat h.size]) (tail h) = checksum h.marshal := by
  rw [hst, ← update_append, marshal_eq]; rfl

/-- **Header.CheckIntegrity agrees with decodeHeader** on every header value with a legal size:
    both accept, or both reject, the 14 (12) bytes the value marshals to. -/
theorem header_crc_agreement (st : DecSt) (h : Header) (hst : st.crc = 0#16)
    (hs : h.size = headerSizeCRC ∨ h.size = headerSizeNoCRC)
    (hp : h.proto < 256) (hc : h.crc < 65536) (hdt : h.dtype.length = 4) :
    accepts h.checkIntegrity = acceptsE (headerCheck st [UInt8.ofNat h.size] (tail h)) := by
  have hsz : ([UInt8.ofNat h.size].headD 0).toNat = h.size := by
    simp only [List.headD_cons]
    apply u8_toNat
    rcases hs with hs | hs <;> rw [hs] <;> decide
  unfold Header.checkIntegrity headerCheck
  simp only [hsz, tail_head, u8_toNat h.proto hp, tail_tag h hdt, crc_of_parts st hst h]
  by_cases h1 : h.proto / 16 > protoMajorMax
  · simp [h1, accepts, acceptsE]
  · simp only [h1, ↓reduceIte]
    by_cases h2 : h.dtype = fitTag
    · simp only [h2, ne_eq, not_true_eq_false, ↓reduceIte]
      rcases hs with hs | hs
      · have hne : h.size ≠ headerSizeNoCRC := by rw [hs]; decide
        have hne2 : ¬ (h.size ≠ headerSizeCRC) := by rw [hs]; simp
        have hcn : ¬ (headerSizeCRC = headerSizeNoCRC) := by decide
        simp only [hne, ↓reduceIte, tail_crc h hdt hne, leNat_natLE2 h.crc hc, hs, not_true_eq_false, hcn]
        by_cases h3 : h.crc = 0
        · simp [h3, accepts, acceptsE, hcn]
        · simp only [h3, ↓reduceIte]
          by_cases h4 : checksum h.marshal = 0#16
          · simp [h4, accepts, acceptsE, hcn]
          · simp [h4, accepts, acceptsE, hcn]
      · simp [hs, accepts, acceptsE]
    · simp [h2, accepts, acceptsE]

/-- non-vacuity: a 14-byte header with a wrong non-zero CRC is rejected by both -/
example : accepts ({ size := 14, proto := 0x20, profile := 2115, dataSize := 0, dtype := fitTag, crc := 0x1234 } : Header).checkIntegrity = false := by
  decide +kernel

/-! ### from checksum facts to verdicts of the entry points -/

/-- **Accepted ⇒ residue zero.** Whatever `Decode` or `CheckIntegrity` accepts has a frame
    (header, data, stored CRC) whose CRC-16 is zero. -/
theorem accepted_residue_zero (P : Profile) (o : Opts) (m : Mode) (hm : m = .full ∨ m = .crcOnly)
    (g : Globals) (data : Bytes) (stop : Stop) (h : (decodeSpec P o m g data stop).1.success) :
    checksum (data.take (frameLen data)) = 0#16 :=
  prog_success_residue P m hm g _ (spec_success_of P o m g data stop h)

/-- **A file that `Decode` accepts passes `CheckIntegrity`.** -/
theorem accepted_passes_integrity (P : Profile) (o o' : Opts) (g : Globals) (data : Bytes) (stop : Stop)
    (h : (decodeSpec P o .full g data stop).1.success) :
    (decodeSpec P o' .crcOnly g data stop).1.success := by
  have hs := spec_success_of P o .full g data stop h
  have hi := full_success_integ_success P g _ hs
  unfold decodeSpec
  simp only
  have fe := finalize_err o' (runSpec (decodeProg P .crcOnly g) { rest := data, stop := stop, taken := 0 }).1
  unfold Outcome.success at hi ⊢
  rw [fe.1, fe.2.1]
  exact hi

/-- **Burst ⇒ rejected, by both entry points.** Take any stream `good` that `Decode` or
    `CheckIntegrity` accepts. Corrupt its frame inside a window of at most 16 consecutive bits
    (bits in the order the checksum consumes them), leaving the header's size and data-size fields
    intact (so the declared frame length is unchanged); what follows the frame is arbitrary. Then
    neither `Decode` nor `CheckIntegrity` accepts the corrupted stream. -/
theorem burst_rejected (P : Profile) (o o' : Opts) (m m' : Mode) (hm : m = .full ∨ m = .crcOnly)
    (hm' : m' = .full ∨ m' = .crcOnly) (g g' : Globals) (good bad : Bytes) (stop stop' : Stop)
    (pre w w' post : List Bool)
    (hgood : (decodeSpec P o m g good stop).1.success)
    (hfl : frameLen bad = frameLen good)
    (hx : bitsOf (good.take (frameLen good)) = pre ++ w ++ post)
    (hy : bitsOf (bad.take (frameLen good)) = pre ++ w' ++ post)
    (hlen : w.length = w'.length) (h16 : w.length ≤ 16) (hne : w ≠ w') :
    ¬ (decodeSpec P o' m' g' bad stop').1.success := by
  intro hbad
  have h1 := accepted_residue_zero P o m hm g good stop hgood
  have h2 := accepted_residue_zero P o' m' hm' g' bad stop' hbad
  rw [hfl] at h2
  exact residue_broken _ _ pre w w' post hx hy hlen h16 hne h1 h2

/-- byte form: a corruption confined to two adjacent bytes `w → w'` anywhere in the frame -/
theorem burst_rejected_bytes (P : Profile) (o o' : Opts) (m m' : Mode) (hm : m = .full ∨ m = .crcOnly)
    (hm' : m' = .full ∨ m' = .crcOnly) (g g' : Globals) (pre w w' post tail tail' : Bytes) (stop stop' : Stop)
    (hgood : (decodeSpec P o m g (pre ++ w ++ post ++ tail) stop).1.success)
    (hframe : (pre ++ w ++ post).length = frameLen (pre ++ w ++ post ++ tail))
    (hfl : frameLen (pre ++ w' ++ post ++ tail') = frameLen (pre ++ w ++ post ++ tail))
    (hlen : w.length = w'.length) (h2 : w.length ≤ 2) (hne : w ≠ w') :
    ¬ (decodeSpec P o' m' g' (pre ++ w' ++ post ++ tail') stop').1.success := by
  intro hbad
  have h1 := accepted_residue_zero P o m hm g _ stop hgood
  have h3 := accepted_residue_zero P o' m' hm' g' _ stop' hbad
  rw [hfl] at h3
  rw [← hframe, List.take_left'] at h1
  have hl' : (pre ++ w' ++ post).length = (pre ++ w ++ post).length := by
    simp only [List.length_append]; omega
  rw [← hframe, ← hl', List.take_left'] at h3
  · exact burst_detected_bytes 0#16 pre w w' post hlen h2 hne (by simp only [checksum] at h1 h3; rw [h1, h3])
  · rfl
  · rfl

/-! ### the hypotheses are satisfiable (kernel-evaluated on the regenerated profile) -/

def minFile : Bytes := [12, 32, 67, 8, 11, 0, 0, 0, 46, 70, 73, 84, 64, 0, 0, 0, 0, 1, 0, 1, 0, 0, 4, 34, 103]
def minFileCorrupt : Bytes := [12, 32, 67, 8, 11, 0, 0, 0, 46, 70, 73, 84, 64, 0, 0, 0, 0, 1, 0, 1, 0, 0, 5, 34, 103]   -- byte 22 (the file type) changed from 4 to 5

set_option maxRecDepth 100000 in
/-- `minFile` is accepted by both entry points and its residue is zero; the corrupted copy declares
    the same frame and is rejected by both (as `burst_rejected_bytes` says it must) -/
example :
    (decodeSpec Fit.Gen.profile {} .full {} minFile .eof).1.success ∧
    (decodeSpec Fit.Gen.profile {} .crcOnly {} minFile .eof).1.success ∧
    checksum (minFile.take (frameLen minFile)) = 0#16 ∧
    frameLen minFileCorrupt = frameLen minFile ∧
    ¬ (decodeSpec Fit.Gen.profile {} .full {} minFileCorrupt .eof).1.success ∧
    ¬ (decodeSpec Fit.Gen.profile {} .crcOnly {} minFileCorrupt .eof).1.success := by
  decide +kernel

end Fit.Props.C04
