import FitModel.Encode
import FitModel.WF
import FitModel.Gen.Profile
import FitProofs.Crc
import FitProofs.Codec
import FitProps.C14
import FitProofs.EncodeItems
import FitProofs.EncodeFile
import FitProofs.DecodeAccepts
import FitProps.C04
import FitProofs.IntegFrame
import FitProofs.DecodeEncode
/-!
  C05 — Encode emits a well-formed, self-describing FIT stream.

  Layers: the frame (`encode_frame`, `encode_residue_zero`, `header_declares_data_size`: header with the
  data size of the records that follow, header CRC, file CRC; the values written back into the File);
  the records (`encode_one_self_describing`, `encode_group_self_describing`: a definition followed by data
  records of exactly the declared sizes, `encoder_sizes_multiple`, `encoder_definitions_validate`;
  `definition_carries_exactly_the_valid_fields`, `array_with_elements_is_carried`,
  `group_definition_carries_every_valid_field`: which fields the definition names);
  the whole output (`encode_wellformed`); and what the decoder's entry points make of it
  (`decode_accepts_encode` on C06's domain, `encode_passes_integrity_any` for every File with a
  legal header).
-/
namespace Fit.Props.C05
open Fit Fit.Crc

theorem lo_toNat (c : BitVec 16) : (Crc.lo c).toNat = c.toNat % 256 := by
  simp [Crc.lo, UInt8.toNat, BitVec.toNat_setWidth]

theorem hi_toNat (c : BitVec 16) : (Crc.hi c).toNat = c.toNat / 256 % 256 := by
  simp [Crc.hi, UInt8.toNat, BitVec.toNat_setWidth, BitVec.toNat_ushiftRight, Nat.shiftRight_eq_div_pow]

/-- the two CRC bytes are written little-endian -/
theorem natLE2_crc (c : BitVec 16) : natLE 2 c.toNat = [Crc.lo c, Crc.hi c] := by
  simp only [natLE]
  congr 1
  · apply UInt8.toNat_inj.mp; rw [lo_toNat]; simp
  · congr 1
    apply UInt8.toNat_inj.mp; rw [hi_toNat]; simp

/-- Encode succeeds exactly by finishing some record body -/
theorem encode_ok_finish (P : Profile) (arch : Endian) (f f' : FileSt) (bs : Bytes)
    (h : encode P arch f = .ok bs f') : ∃ body, bs = (finishEncode f body).1 ∧ f' = (finishEncode f body).2 := by
  unfold encode at h
  split at h
  · cases h
  · cases h
  · split at h
    · cases h
    · split at h
      · cases h
      · split at h
        · cases h
        · cases h
        · rename_i body _
          injection h with h1 h2
          exact ⟨body, h1.symm, h2.symm⟩

/-- **Shape of what Encode writes**: header bytes, record bytes, file CRC; and the File's header
    data size, header CRC (14-byte headers) and file CRC afterwards are the values written. -/
theorem encode_frame (P : Profile) (arch : Endian) (f f' : FileSt) (bs : Bytes)
    (h : encode P arch f = .ok bs f') :
    ∃ body : Bytes,
      bs = (marshalHeader { f.hdr with dataSize := body.length % 4294967296 }).1 ++ body ++ natLE 2 f'.crc ∧
      f'.crc = (checksum ((marshalHeader { f.hdr with dataSize := body.length % 4294967296 }).1 ++ body)).toNat ∧
      f'.hdr.dataSize = body.length % 4294967296 ∧
      (f.hdr.size = headerSizeCRC →
        f'.hdr.crc = (marshalHeader { f.hdr with dataSize := body.length % 4294967296 }).2) := by
  obtain ⟨body, h1, h2⟩ := encode_ok_finish P arch f f' bs h
  refine ⟨body, ?_, ?_, ?_, ?_⟩
  · rw [h1, h2]; rfl
  · rw [h2]; rfl
  · rw [h2]; simp only [finishEncode]; split <;> rfl
  · intro hs; rw [h2]; simp only [finishEncode, hs, ↓reduceIte]

/-- the written stream has CRC residue zero over header + records + file CRC: it passes the
    whole-file integrity check -/
theorem encode_residue_zero (P : Profile) (arch : Endian) (f f' : FileSt) (bs : Bytes)
    (h : encode P arch f = .ok bs f') : checksum bs = 0#16 := by
  obtain ⟨body, h1, h2, _, _⟩ := encode_frame P arch f f' bs h
  simp only at h1 h2
  rw [h1, h2, natLE2_crc]
  exact Props.C14.residue _

/-- a 14-byte header is written with its own CRC: the 14 header bytes have residue zero -/
theorem header_residue_zero (h : Header) (hs : h.size = headerSizeCRC) :
    checksum (marshalHeader h).1 = 0#16 := by
  simp only [marshalHeader, hs, ↓reduceIte, natLE2_crc]
  exact Props.C14.residue _

/-- the header declares the number of record bytes that follow -/
theorem header_declares_data_size (h : Header) (hd : h.dataSize < 4294967296) :
    leNat (((marshalHeader h).1.drop 4).take 4) = h.dataSize := by
  have e : ((marshalHeader h).1.drop 4).take 4 = natLE 4 h.dataSize := by
    simp only [marshalHeader]
    split <;> simp [natLE]
  rw [e, leNat_natLE]
  exact Nat.mod_eq_of_lt hd

theorem encodeString_length (b : Bytes) (n : Nat) (bs : Bytes) (h : encodeString b n = .ok bs) :
    bs.length = n := by
  unfold encodeString at h
  split at h
  · cases h
  · simp only at h
    split at h
    · injection h with h
      subst h
      simp only [List.length_append, List.length_take, List.length_replicate]
      omega
    · cases h

/-- every data record carries, per field, the number of bytes its definition declares: scalars
    of a native type the Go value's width, time and coordinate fields 4 bytes, strings the
    profile's fixed length -/
theorem encodeScalar_length (arch : Endian) (pf : PField) (k : Sc) (v : Val) (bs : Bytes)
    (h : encodeScalar arch pf k v = .ok bs) :
    (tcKind pf.tcode ≠ .native → bs.length = 4) ∧
    (tcKind pf.tcode = .native → tcBase pf.tcode ≠ Base.string → bs.length = scWidth k) ∧
    (tcKind pf.tcode = .native → tcBase pf.tcode = Base.string → bs.length = pf.length) := by
  unfold encodeScalar at h
  split at h
  · injection h with h; subst h; simp_all [enc_length]
  · injection h with h; subst h; simp_all [enc_length]
  · injection h with h; subst h; simp_all [enc_length]
  · injection h with h; subst h; simp_all [enc_length]
  · -- string
    rename_i hk b
    split at h
    · rename_i hb
      split at h
      · rename_i bs' he
        injection h with h; subst h
        have := encodeString_length _ _ _ he
        simp_all
      · cases h
    · cases h
  · split at h
    · cases h
    · injection h with h; subst h; simp_all [enc_length]
  · split at h
    · cases h
    · injection h with h; subst h; simp_all [enc_length]
  · split at h
    · cases h
    · injection h with h; subst h; simp_all [enc_length]
  · cases h

/-- **Self-describing records.** On a well-formed profile, what `Encode` writes for one message
    (file_id, file_creator, timestamp_correlation and every single-valued container field go
    through `encodeOne`) is the serialisation of a definition record followed by a data record of
    the same local type carrying, per declared field, exactly the declared number of bytes; the
    definition's counts and sizes fit their one-byte fields. -/
theorem encode_one_self_describing (P : Profile) (hwf : ProfileWF P = true) (arch : Endian) (m : Msg) (bs : Bytes)
    (h : encodeOne P arch m = .ok bs) :
    ∃ (fs : List PField) (parts : List Bytes),
      bs = serialize [.defn (defOf arch m.num fs) false, .data 0 parts []] ∧
      FieldsFit (defOf arch m.num fs).fields parts ∧ DefnWF (defOf arch m.num fs) false := by
  obtain ⟨fs, parts, h1, h2, h3, _⟩ := encodeOne_items P hwf arch m bs h
  exact ⟨fs, parts, h1, h2, h3⟩

/-- … and therefore the decoder's record loop, wherever it meets these bytes, reads them back as
    exactly that definition and that data record (Framing). -/
theorem encode_one_read_back (P : Profile) (hwf : ProfileWF P = true) (arch : Endian) (m : Msg) (bs : Bytes)
    (h : encodeOne P arch m = .ok bs) :
    ∃ its : List Item, bs = serialize its ∧
      ∀ (limit fuel : Nat) (cont : DecSt → DP) (st : DecSt) (s : SpecSt) (tail : Bytes),
        0 < st.defs.length → s.rest = bs ++ tail → st.n + bs.length ≤ limit →
        match stepItems P st its with
        | .ok st' =>
          runSpecD limit (decodeFileData P limit (fuel + its.length) st cont) st.n s =
            runSpecD limit (decodeFileData P limit fuel st' cont) (st.n + bs.length)
              { s with rest := tail, taken := s.taken + bs.length } ∧ st'.n = st.n + bs.length
        | .stop o =>
          ∃ e, (runSpecD limit (decodeFileData P limit (fuel + its.length) st cont) st.n s).1 = .inl e ∧
            e.err = (exitOf o).err := by
  obtain ⟨its, hbs, hfit⟩ := encodeOne_self_describing P hwf arch m bs h
  refine ⟨its, hbs, ?_⟩
  intro limit fuel cont st s tail hd hs hl
  subst hbs
  exact run_items P limit cont its fuel st st.n s tail (hfit st hd) hs hl rfl

/-- **Message groups** (records, laps, events, …: every slice-valued container field): one
    definition record with the union of the valid fields, then one data record per message, each
    carrying exactly the declared bytes. `_partial`: the fit to the decoder's reading is shown under
    the explicit hypothesis that the union has fewer than 256 fields (the count is one byte on the
    wire; the profile's largest message has far fewer, but that bound on the union is not derived
    here). -/
theorem encode_group_self_describing_partial (P : Profile) (hwf : ProfileWF P = true) (arch : Endian)
    (ms : List Msg) (bs : Bytes) (hne : ms ≠ []) (h : encodeGroup P arch ms = .ok bs) :
    ∃ (d : DefMsg) (partss : List (List Bytes)),
      bs = serialize (.defn d false :: partss.map fun parts => Item.data 0 parts []) ∧
      partss.length = ms.length ∧
      (d.fields.length < 256 → ∀ st : DecSt, 0 < st.defs.length →
        ItemsFit P st (.defn d false :: partss.map fun parts => Item.data 0 parts [])) :=
  encodeGroup_self_describing P hwf arch ms bs hne h

/-- **Message groups, in full**: the shared definition never has more fields than the message
    struct (its fields come out strictly ordered by struct index), so the count fits its byte and the
    group is a definition record followed by one fitting data record per message — from any state of
    the decoder's definition table. -/
theorem encode_group_self_describing (P : Profile) (hwf : ProfileWF P = true) (arch : Endian) (ms : List Msg)
    (bs : Bytes) (hne : ms ≠ []) (h : encodeGroup P arch ms = .ok bs) :
    ∃ (d : DefMsg) (partss : List (List Bytes)),
      bs = serialize (.defn d false :: partss.map fun parts => Item.data 0 parts []) ∧
      partss.length = ms.length ∧
      ∀ defs : List (Option DefMsg), 0 < defs.length →
        ItemsFitD P defs (.defn d false :: partss.map fun parts => Item.data 0 parts []) :=
  encodeGroup_fitsD P hwf arch ms bs hne h

/-- **The definitions `Encode` writes are accepted by `Decode`'s validation.** -/
theorem encoder_definitions_validate (P : Profile) (g : Nat) (pm : PMsg) (pf : PField) (h : fieldWF pm pf = true)
    (hgf : P.known g = true → P.getField g pf.num = some pf) :
    validateFieldDef P g (fdOf pf) = true :=
  validate_fdOf P g pm pf (fieldWF_facts pm pf h) hgf

/-- **What `Encode` writes is a well-formed, self-describing FIT file** (whole File, every container
    field): a 12-byte header, or a 14-byte header with its CRC, records that are the serialisation of items in which
    every data record fits the definition live for its local type — starting with the file_id
    definition and data record — and the file CRC. With `whole_file_framing` (C02) this is exactly
    the input shape on which `Decode` is shown to do what the record machine does. -/
theorem encode_wellformed (P : Profile) (hwf : ProfileWF P = true) (arch : Endian) (f f' : FileSt) (bs : Bytes)
    (h : encode P arch f = .ok bs f') (hs : f.hdr.size = headerSizeNoCRC ∨ f.hdr.size = headerSizeCRC) (ht : f.hdr.dtype = fitTag)
    (hsmall : bs.length < 4294967296) :
    ∃ (d0 : DefMsg) (parts0 : List Bytes) (rest : List Item),
      d0.global = f.fileId.num ∧ d0.localT = 0 ∧
      bs = frameBytesK (kindOfSize f.hdr.size) f.hdr.proto f.hdr.profile (serialize (.defn d0 false :: .data 0 parts0 [] :: rest)) ∧
      ItemsFitD P (List.replicate 16 none) (.defn d0 false :: .data 0 parts0 [] :: rest) :=
  Fit.encode_wellformed P hwf arch f f' bs h hs ht hsmall

/-- **`Decode` accepts what `Encode` wrote.** On a well-formed profile, for every File that `Encode`
    accepts and that lies in `FileInDomain` — a 12- or 14-byte ".FIT" header, a file_id message whose valid
    fields round-trip (the kinds covered in C06) and whose other fields hold the constructor's
    invalid values, and messages of known types only — the bytes written, followed by anything and
    read with either way of ending, decode successfully: header and header CRC, file_id prelude,
    `init` with the same file type, every definition validated, every data record parsed and routed,
    file CRC. (By C10 the same holds for the buffered run under any read schedule, and exactly the
    written bytes are consumed.) -/
theorem decode_accepts_encode (P : Profile) (hwf : ProfileWF P = true) (arch : Endian) (f f' : FileSt) (bs : Bytes)
    (h : encode P arch f = .ok bs f') (hdom : FileInDomain P arch f) (hsmall : bs.length < 4294967296)
    (o : Opts) (g : Globals) (tail : Bytes) (stop : Stop) :
    (decodeSpec P o .full g (bs ++ tail) stop).1.success :=
  Fit.decode_accepts_encode P hwf arch f f' bs h hdom hsmall o g tail stop


/-- **`CheckIntegrity` accepts what `Encode` wrote** (same domain): header CRC and file CRC are
    the ones the decoder's integrity pass recomputes. -/
theorem encode_passes_integrity (P : Profile) (hwf : ProfileWF P = true) (arch : Endian) (f f' : FileSt) (bs : Bytes)
    (h : encode P arch f = .ok bs f') (hdom : FileInDomain P arch f) (hsmall : bs.length < 4294967296)
    (o : Opts) (g : Globals) (tail : Bytes) (stop : Stop) :
    (decodeSpec P o .crcOnly g (bs ++ tail) stop).1.success :=
  C04.accepted_passes_integrity P o o g (bs ++ tail) stop
    (Fit.decode_accepts_encode P hwf arch f f' bs h hdom hsmall o g tail stop)

/-- the hypotheses are satisfiable: the regenerated profile is well-formed and encodes a file_id
    message (kernel-evaluated) -/
example : ProfileWF Gen.profile = true ∧
    (match encodeOne Gen.profile .le ⟨0, [.u 4, .u 1, .u 2, .u 3, .t 100 0 0, .u 5, .s []]⟩ with
     | .ok bs => bs.length
     | .error _ => 0) > 0 := by decide +kernel

/-- **Field sizes in the definitions `Encode` writes are multiples of their base-type size** (and
    strings, of base size 1, have the profile length): for every lookup entry of a well-formed profile -/
theorem encoder_sizes_multiple (pm : PMsg) (pf : PField) (h : fieldWF pm pf = true) :
    (fdOf pf).size % Base.size (tcBase pf.tcode) = 0 ∧ 1 ≤ (fdOf pf).size ∧ (fdOf pf).size ≤ 255 := by
  have facts := fieldWF_facts pm pf h
  have hl := facts.len1
  have hsmall := facts.small
  have hknown := facts.known
  show szOf pf % _ = 0 ∧ 1 ≤ szOf pf ∧ szOf pf ≤ 255
  unfold szOf
  simp only
  by_cases hs : tcBase pf.tcode = Base.string
  · have hb := facts.lenB (Or.inr hs)
    rw [hs] at hb ⊢
    have h1 : Base.size Base.string = 1 := by decide
    rw [h1] at hb ⊢
    simp only [↓reduceIte, Nat.mod_one, true_and]
    omega
  · simp only [hs, ↓reduceIte]
    have hpos : 1 ≤ Base.size (tcBase pf.tcode) := by
      unfold Base.known at hknown
      simp only [Bool.and_eq_true, decide_eq_true_eq, beq_iff_eq] at hknown
      obtain ⟨hi, _⟩ := hknown
      unfold Base.size Base.bsize
      have : Base.index (tcBase pf.tcode) < 17 := hi
      generalize Base.index (tcBase pf.tcode) = i at this
      have : ∀ j : Fin 17, 1 ≤ [1, 1, 1, 2, 2, 4, 4, 1, 4, 8, 1, 2, 4, 1, 8, 8, 8].getD j.val 0 := by decide
      exact this ⟨i, ‹i < 17›⟩
    cases ha : tcArray pf.tcode with
    | true =>
      have hb := facts.lenB (Or.inl ha)
      simp only [↓reduceIte]
      have e : Base.size (tcBase pf.tcode) * pf.length % 256 = Base.size (tcBase pf.tcode) * pf.length := Nat.mod_eq_of_lt (by omega)
      rw [e, e]
      refine ⟨Nat.mul_mod_right _ _, ?_, hb⟩
      calc 1 = 1 * 1 := rfl
        _ ≤ Base.size (tcBase pf.tcode) * pf.length := Nat.mul_le_mul hpos hl
    | false =>
      simp only [Bool.false_eq_true, ↓reduceIte]
      have e : Base.size (tcBase pf.tcode) % 256 = Base.size (tcBase pf.tcode) := Nat.mod_eq_of_lt (by omega)
      rw [e]
      exact ⟨Nat.mod_self _, hpos, by omega⟩

/-- **`CheckIntegrity` accepts whatever `Encode` writes, for every File** with a legal header (12 or 14
    bytes, the ".FIT" tag, a protocol version the decoder supports): the header declares the number of
    record bytes that follow, the header CRC (when there is one) and the trailing file CRC are the ones
    the integrity pass recomputes — no hypothesis on the messages (`integ_accepts_frame`: the integrity
    pass only hashes the record bytes). -/
theorem encode_passes_integrity_any (P : Profile) (arch : Endian) (f f' : FileSt) (bs : Bytes)
    (h : encode P arch f = .ok bs f') (hs : f.hdr.size = headerSizeNoCRC ∨ f.hdr.size = headerSizeCRC)
    (ht : f.hdr.dtype = fitTag) (hp : f.hdr.proto < 256 ∧ f.hdr.proto / 16 ≤ protoMajorMax)
    (hsmall : bs.length < 4294967296) (o : Opts) (g : Globals) (tail : Bytes) (stop : Stop) :
    (decodeSpec P o .crcOnly g (bs ++ tail) stop).1.success := by
  unfold encode at h
  cases hia : P.initAns (fileTypeOf f) with
  | format => rw [hia] at h; cases h
  | notsupported => rw [hia] at h; cases h
  | container j =>
    rw [hia] at h
    simp only at h
    cases hci : f.cidx with
    | none => rw [hci] at h; cases h
    | some i =>
      rw [hci] at h
      simp only at h
      split at h
      · cases h
      · cases hbody : encodeBody P arch f (P.containers.getD i default) with
        | error e => rw [hbody] at h; cases e <;> cases h
        | ok body =>
          rw [hbody] at h
          simp only at h
          injection h with h1 _
          have hblen : body.length < 4294967296 := by
            rw [← h1] at hsmall
            simp only [finishEncode, List.length_append] at hsmall
            omega
          rw [← h1, finishEncode_frame f body hs ht hblen]
          exact integ_accepts_frame P o _ g _ _ body tail stop hp.1 hp.2 hblen

/-! ### which fields a definition names -/

/-- `getEncodeMesgDef`: the definition written for a message names the lookup entry of a struct
    position exactly when the message's value there is valid (a scalar different from the
    all-invalid message's, an array or string with at least one element) -/
theorem definition_carries_exactly_the_valid_fields (pm : PMsg) (m : Msg) (fs : List PField)
    (h : encodeMesgDef pm m = some fs) (i : Nat) (hi : i < m.vals.length) :
    (∃ pf ∈ fs, pf.sindex = i) ↔ isInvalidVal pm i (m.vals.getD i (.u 0)) = false := by
  obtain ⟨h1, h2⟩ := encodeMesgDef_spec pm m fs h
  constructor
  · rintro ⟨pf, hp, rfl⟩
    exact (h1 pf hp).2
  · exact h2 i hi

/-- an array counts as set as soon as it has an element — whatever the elements are, so an invalid
    first element does not hide the valid ones behind it -/
theorem array_with_elements_is_carried (pm : PMsg) (m : Msg) (fs : List PField)
    (h : encodeMesgDef pm m = some fs) (i : Nat) (hi : i < m.vals.length) (x : Nat) (xs : List Nat)
    (hv : m.vals.getD i (.u 0) = .us (some (x :: xs))) :
    ∃ pf ∈ fs, pf.sindex = i := by
  rw [definition_carries_exactly_the_valid_fields pm m fs h i hi, hv]
  rfl

/-- a slice of messages shares one definition: it names every field that is valid in any of them -/
theorem group_definition_carries_every_valid_field (pm : PMsg) (hmw : msgWF pm = true) (ms : List Msg) (defs : List (List PField))
    (h : ms.mapM (encodeMesgDef pm) = some defs) (m : Msg) (hm : m ∈ ms) (i : Nat) (hi : i < m.vals.length)
    (hv : isInvalidVal pm i (m.vals.getD i (.u 0)) = false) :
    ∃ pf, fieldBySindex pm i = some pf ∧
      ∃ y ∈ defs.flatten.foldl (fun acc pf => insertField pf acc) [], y.num = pf.num := by
  obtain ⟨fs, hfs, hd⟩ : ∃ fs, encodeMesgDef pm m = some fs ∧ fs ∈ defs := by
    induction ms generalizing defs with
    | nil => cases hm
    | cons a as ih =>
      rw [List.mapM_cons] at h
      cases ha : encodeMesgDef pm a with
      | none => rw [ha] at h; cases h
      | some fa =>
        rw [ha] at h
        cases hr : as.mapM (encodeMesgDef pm) with
        | none => rw [hr] at h; cases h
        | some dr =>
          rw [hr] at h
          cases h
          cases hm with
          | head => exact ⟨fa, ha, List.mem_cons_self ..⟩
          | tail _ hm' =>
            obtain ⟨fs, h1, h2⟩ := ih dr hr hm'
            exact ⟨fs, h1, List.mem_cons_of_mem _ h2⟩
  obtain ⟨pf, hp, hpi⟩ := (definition_carries_exactly_the_valid_fields pm m fs hfs i hi).mpr hv
  have hfind : fieldBySindex pm i = some pf := by
    subst hpi
    exact fieldBySindex_of_mem pm hmw pf ((encodeMesgDef_mem pm m fs hfs).1 pf hp)
  refine ⟨pf, hfind, ?_⟩
  exact foldl_insertField_has defs.flatten [] pf (List.mem_flatten.mpr ⟨fs, hd, hp⟩)
/-- a two-field message type for the example below -/
def demoMsg : PMsg where
  num := 20
  known := true
  inFields := true
  hasType := true
  hasCtor := true
  fields := [⟨0, 3, 2, 1⟩, ⟨1, 7, 34, 5⟩]
  layout := []
  fnames := []
  invalid := [Val.u 255, Val.us none]

/-- non-vacuity: the array starts with the invalid value 255 and goes on with a valid element — the
    definition names both fields -/
example : encodeMesgDef demoMsg ⟨20, [Val.u 70, Val.us (some [255, 3])]⟩ = some [⟨0, 3, 2, 1⟩, ⟨1, 7, 34, 5⟩] := by
  decide

end Fit.Props.C05
