import FitModel.Encode
import FitModel.Items
import FitProofs.Codec
import FitProps.C02
import FitProps.C17
import FitProofs.EncodeItems
import FitProofs.MsgRoundtrip
import FitModel.Gen.Profile
import FitProofs.Replay
import FitProofs.ArrayRT
import FitProps.C01
/-!
  C06 — Encode then Decode returns the values that were put in.

  Per-layer theorems: for every kind of field value, what `encodeScalar`/`encodeString` write is
  read back by `parseFitField` / the time and coordinate branches as the same value.  The
  composition over whole Files is `decode_encode_content` / `decode_encode_identity` below
  (FitProofs/DecodeEncode.lean, FitProofs/Replay.lean): for every File in a decidable domain
  (`fileRTB`, `fileShapeB`), `Decode (Encode f)` succeeds and returns the File's own messages slot
  by slot, each passed through `expandComponents` where its type has component fields, arrays padded
  with invalid values to the profile length (`wireFile`).  The domain holds unsigned, signed and byte
  arrays of any length up to the profile's, nil arrays and the invalid values of scalars, strings,
  times and coordinates as fillers of a slice's shared definition; what it leaves out (string arrays,
  which `Encode` refuses; local times; times in a zone other than UTC) is covered by the
  correspondence run only (real Encode → real Decode, compared with the model's prediction and with
  the input under the property's equivalence).
-/
namespace Fit.Props.C06
open Fit Fit.Props.C02

/-- unsigned scalars of 1, 2 and 4 bytes: written with `encodeScalar`, read back unchanged -/
theorem unsigned_roundtrip (arch : Endian) (pf : PField) (w n : Nat) (fd : FieldDef)
    (hk : tcKind pf.tcode = .native) (hb : tcBase pf.tcode ≠ Base.string)
    (hw : (w = 1 ∧ (fd.btype = Base.enum ∨ fd.btype = Base.byte ∨ fd.btype = Base.uint8 ∨ fd.btype = Base.uint8z)) ∨
          (w = 2 ∧ (fd.btype = Base.uint16 ∨ fd.btype = Base.uint16z)) ∨
          (w = 4 ∧ (fd.btype = Base.uint32 ∨ fd.btype = Base.uint32z)))
    (hn : n < 256 ^ w) :
    ∃ bs, encodeScalar arch pf (.u (8 * w)) (.u n) = .ok bs ∧
      parseFitField arch fd (.sc (.u (8 * w))) bs = .ok (some (.u n)) := by
  have hsw : scWidth (.u (8 * w)) = w := by simp [scWidth]
  refine ⟨arch.enc w n, ?_, ?_⟩
  · simp [encodeScalar, hk, hb, hsw]
  · have hd : wireNat arch (arch.enc w n) = n := by
      simp only [wireNat]; rw [dec_enc]; exact Nat.mod_eq_of_lt hn
    have hl := enc_length arch w n
    rcases hw with ⟨rfl, hbt⟩ | ⟨rfl, hbt⟩ | ⟨rfl, hbt⟩
    · have := (unsigned_field_denotes arch fd 8 (arch.enc 1 n)).1 hbt hl (by omega)
      rw [hd] at this; exact this
    · have := (unsigned_field_denotes arch fd 16 (arch.enc 2 n)).2.1 hbt hl (by omega)
      rw [hd] at this; exact this
    · have := (unsigned_field_denotes arch fd 32 (arch.enc 4 n)).2.2 hbt hl (by omega)
      rw [hd] at this; exact this

/-- signed scalars: two's complement out, two's complement back -/
theorem signed_roundtrip (arch : Endian) (pf : PField) (w : Nat) (z : Int) (fd : FieldDef)
    (hk : tcKind pf.tcode = .native) (hb : tcBase pf.tcode ≠ Base.string)
    (hw : (w = 1 ∧ fd.btype = Base.sint8) ∨ (w = 2 ∧ fd.btype = Base.sint16) ∨ (w = 4 ∧ fd.btype = Base.sint32))
    (hlo : -(2 ^ (8 * w - 1) : Int) ≤ z) (hhi : z < (2 ^ (8 * w - 1) : Int)) :
    ∃ bs, encodeScalar arch pf (.i (8 * w)) (.i z) = .ok bs ∧
      parseFitField arch fd (.sc (.i (8 * w))) bs = .ok (some (.i z)) := by
  have hsw : scWidth (.i (8 * w)) = w := by simp [scWidth]
  refine ⟨arch.enc w (toUnsigned (8 * w) z), ?_, ?_⟩
  · simp [encodeScalar, hk, hb, hsw]
  · have hl := enc_length arch w (toUnsigned (8 * w) z)
    have key : ∀ bits, bits = 8 ∨ bits = 16 ∨ bits = 32 → -(2 ^ (bits - 1) : Int) ≤ z → z < (2 ^ (bits - 1) : Int) →
        toSigned bits (toUnsigned bits z % 2 ^ bits) = z := by
      intro bits hb h1 h2
      rcases hb with rfl | rfl | rfl <;>
      · simp only [toSigned, toUnsigned, Nat.reducePow, Nat.reduceSub, Int.reducePow] at *
        apply ite_eq_of <;> intro h <;> omega
    rcases hw with ⟨rfl, hbt⟩ | ⟨rfl, hbt⟩ | ⟨rfl, hbt⟩
    · have := (signed_field_denotes arch fd 8 (arch.enc 1 (toUnsigned 8 z)) (Or.inl rfl)).1 hbt hl (by omega)
      simp only [wireNat, dec_enc] at this
      rw [show (256 : Nat) ^ 1 = 2 ^ 8 by decide, key 8 (Or.inl rfl) hlo hhi] at this
      exact this
    · have := (signed_field_denotes arch fd 16 (arch.enc 2 (toUnsigned 16 z)) (Or.inr (Or.inl rfl))).2.1 hbt hl (by omega)
      simp only [wireNat, dec_enc] at this
      rw [show (256 : Nat) ^ 2 = 2 ^ 16 by decide, key 16 (Or.inr (Or.inl rfl)) hlo hhi] at this
      exact this
    · have := (signed_field_denotes arch fd 32 (arch.enc 4 (toUnsigned 32 z)) (Or.inr (Or.inr (Or.inl rfl)))).2.2 hbt hl (by omega)
      simp only [wireNat, dec_enc] at this
      rw [show (256 : Nat) ^ 4 = 2 ^ 32 by decide, key 32 (Or.inr (Or.inr rfl)) hlo hhi] at this
      exact this

/-- strings: valid UTF-8 without NUL that fits (shorter than the profile length) comes back as is -/
theorem string_roundtrip (arch : Endian) (fd : FieldDef) (b : Bytes) (n : Nat)
    (hbt : fd.btype = Base.string) (hne : b ≠ []) (hfit : b.length < n) (hnul : ∀ x ∈ b, x ≠ 0)
    (hutf : utf8Valid (b ++ List.replicate (n - b.length) 0) = true) :
    ∃ bs, encodeString b n = .ok bs ∧ parseFitField arch fd (.sc .s) bs = .ok (some (.s b)) := by
  have hmin : min b.length (n - 1) = b.length := by omega
  refine ⟨b ++ List.replicate (n - b.length) 0, ?_, ?_⟩
  · unfold encodeString
    have : n ≠ 0 := by omega
    simp [this, hmin, hutf]
  · rw [string_field_denotes arch fd _ hbt]
    have htw : (b ++ List.replicate (n - b.length) 0).takeWhile (· != 0) = b := by
      rw [List.takeWhile_append_of_pos (by intro x hx; simpa using hnul x hx)]
      have : (List.replicate (n - b.length) (0 : UInt8)).takeWhile (· != 0) = [] := by
        cases hh : n - b.length with
        | zero => simp
        | succ k => simp [List.replicate_succ]
      rw [this, List.append_nil]
    rw [htw]
    cases b with
    | nil => exact absurd rfl hne
    | cons _ _ => simp

/-- date_time values: whole seconds in range come back unchanged -/
theorem time_value_roundtrip (arch : Endian) (pf : PField) (ts : TsRef) (secs : Nat)
    (hk : tcKind pf.tcode = .timeUTC) (h2 : secs < 4294967295) :
    ∃ bs, encodeScalar arch pf (.u 32) (.t secs 0 0) = .ok bs ∧
      (parseTimeStamp ts pf (arch.dec bs)).1 = some (.t secs 0 0) := by
  refine ⟨arch.enc 4 (LatLng.encodeTime secs), by simp [encodeScalar, hk], ?_⟩
  have he : LatLng.encodeTime (secs : Int) = secs := (Props.C17.time_bijection secs (by omega)).1
  rw [he, dec_enc, Nat.mod_eq_of_lt (by omega : secs < 256 ^ 4)]
  exact (Props.C12_datetime ts pf secs hk (by omega))
where
  Props.C12_datetime (ts : TsRef) (pf : PField) (v : Nat) (hk : tcKind pf.tcode = .timeUTC) (hv : v ≠ 0xFFFFFFFF) :
      (parseTimeStamp ts pf v).1 = some (.t v 0 0) := by
    unfold parseTimeStamp; simp [hv, hk]

/-! ### one field through the real encoder and decoder functions -/

/-- Go slot of an unsigned base type of `w` bytes -/
theorem unsigned_slot_width (b w : Nat)
    (hw : (w = 1 ∧ (b = Base.enum ∨ b = Base.byte ∨ b = Base.uint8 ∨ b = Base.uint8z)) ∨
          (w = 2 ∧ (b = Base.uint16 ∨ b = Base.uint16z)) ∨
          (w = 4 ∧ (b = Base.uint32 ∨ b = Base.uint32z))) :
    scOfBase b = some (.u (8 * w)) ∧ b ≠ Base.string ∧ Base.size b = w := by
  rcases hw with ⟨rfl, h | h | h | h⟩ | ⟨rfl, h | h⟩ | ⟨rfl, h | h⟩ <;> subst h <;> decide

/-- a native scalar field through the real functions, given the value-level round trip -/
theorem native_scalar_field (P : Profile) (hwf : ProfileWF P = true) (dm : DefMsg) (pf : PField)
    (msg : Msg) (ts : TsRef) (sck : Sc) (v : Val) (bs : Bytes)
    (hgf : P.getField dm.global pf.num = some pf)
    (hnat : tcKind pf.tcode = .native) (harr : tcArray pf.tcode = false)
    (hsc : scOfBase (tcBase pf.tcode) = some sck)
    (he : encodeScalar dm.arch pf sck v = .ok bs)
    (hp : parseFitField dm.arch (fdOf pf) (.sc sck) bs = .ok (some v)) :
    writeField dm.arch pf (.sc sck) v = .ok bs ∧ bs.length = (fdOf pf).size ∧
      applyField P dm true (fdOf pf) bs (some msg) ts =
        .ok (some { msg with vals := setAt msg.vals pf.sindex v }) ts := by
  obtain ⟨pm, hpm, hfw⟩ := getField_wf P hwf _ _ _ hgf
  have facts := fieldWF_facts pm pf hfw
  obtain ⟨k, hl, hslot⟩ := facts.slot
  have hk : k = .sc sck := by
    unfold slotOfType at hslot
    rw [hnat] at hslot
    simp only [hsc, harr, Bool.false_eq_true, ↓reduceIte, Option.some.injEq] at hslot
    exact hslot.symm
  subst hk
  have hwf' : writeField dm.arch pf (.sc sck) v = .ok bs := by
    unfold writeField
    simp only [harr, Bool.not_false, ↓reduceIte]
    exact he
  have hlen := writeField_length dm.arch pm pf _ _ bs facts hslot hwf'
  refine ⟨hwf', hlen, ?_⟩
  unfold applyField
  simp only [fdOf, hgf, hpm, hl, hnat, harr]
  simp only [Bool.not_true, Bool.false_eq_true, ↓reduceIte, Bool.not_false]
  have hnn2 : ¬ (tcBase pf.tcode ≠ Base.string ∧ True ∧ Kind.native ≠ Kind.native) := fun h => h.2.2 rfl
  rw [if_neg hnn2]
  have htake : bs.take (szOf pf) = bs := by rw [← hlen]; exact List.take_length
  rw [htake]
  have hp' : parseFitField dm.arch ⟨pf.num, szOf pf, tcBase pf.tcode⟩ (.sc sck) bs = .ok (some v) := hp
  rw [hp']

/-- **An unsigned scalar field, end to end**: `writeField` emits bytes of the declared size, and
    `applyField` — run with the definition the encoder writes for that field — stores exactly the
    value that was encoded, touching nothing else and leaving the timestamp reference alone. -/
theorem unsigned_field_roundtrip (P : Profile) (hwf : ProfileWF P = true) (dm : DefMsg) (pf : PField)
    (msg : Msg) (ts : TsRef) (w n : Nat)
    (hgf : P.getField dm.global pf.num = some pf)
    (hnat : tcKind pf.tcode = .native) (harr : tcArray pf.tcode = false)
    (hw : (w = 1 ∧ (tcBase pf.tcode = Base.enum ∨ tcBase pf.tcode = Base.byte ∨ tcBase pf.tcode = Base.uint8 ∨
              tcBase pf.tcode = Base.uint8z)) ∨
          (w = 2 ∧ (tcBase pf.tcode = Base.uint16 ∨ tcBase pf.tcode = Base.uint16z)) ∨
          (w = 4 ∧ (tcBase pf.tcode = Base.uint32 ∨ tcBase pf.tcode = Base.uint32z)))
    (hn : n < 256 ^ w) :
    ∃ part, writeField dm.arch pf (.sc (.u (8 * w))) (.u n) = .ok part ∧ part.length = (fdOf pf).size ∧
      applyField P dm true (fdOf pf) part (some msg) ts =
        .ok (some { msg with vals := setAt msg.vals pf.sindex (.u n) }) ts := by
  obtain ⟨hsc, hns, hsz⟩ := unsigned_slot_width _ w hw
  obtain ⟨bs, he, hp⟩ := unsigned_roundtrip dm.arch pf w n (fdOf pf) hnat hns hw hn
  exact ⟨bs, native_scalar_field P hwf dm pf msg ts _ _ bs hgf hnat harr hsc he hp⟩

theorem signed_slot_width (b w : Nat)
    (hw : (w = 1 ∧ b = Base.sint8) ∨ (w = 2 ∧ b = Base.sint16) ∨ (w = 4 ∧ b = Base.sint32)) :
    scOfBase b = some (.i (8 * w)) ∧ b ≠ Base.string := by
  rcases hw with ⟨rfl, h⟩ | ⟨rfl, h⟩ | ⟨rfl, h⟩ <;> subst h <;> decide

/-- **A signed scalar field, end to end.** -/
theorem signed_field_roundtrip (P : Profile) (hwf : ProfileWF P = true) (dm : DefMsg) (pf : PField)
    (msg : Msg) (ts : TsRef) (w : Nat) (z : Int)
    (hgf : P.getField dm.global pf.num = some pf)
    (hnat : tcKind pf.tcode = .native) (harr : tcArray pf.tcode = false)
    (hw : (w = 1 ∧ tcBase pf.tcode = Base.sint8) ∨ (w = 2 ∧ tcBase pf.tcode = Base.sint16) ∨
          (w = 4 ∧ tcBase pf.tcode = Base.sint32))
    (hlo : -(2 ^ (8 * w - 1) : Int) ≤ z) (hhi : z < (2 ^ (8 * w - 1) : Int)) :
    ∃ part, writeField dm.arch pf (.sc (.i (8 * w))) (.i z) = .ok part ∧ part.length = (fdOf pf).size ∧
      applyField P dm true (fdOf pf) part (some msg) ts =
        .ok (some { msg with vals := setAt msg.vals pf.sindex (.i z) }) ts := by
  obtain ⟨hsc, hns⟩ := signed_slot_width _ w hw
  obtain ⟨bs, he, hp⟩ := signed_roundtrip dm.arch pf w z (fdOf pf) hnat hns hw hlo hhi
  exact ⟨bs, native_scalar_field P hwf dm pf msg ts _ _ bs hgf hnat harr hsc he hp⟩

/-- **A string field, end to end**: valid UTF-8 without NUL, shorter than the profile's length. -/
theorem string_field_roundtrip (P : Profile) (hwf : ProfileWF P = true) (dm : DefMsg) (pf : PField)
    (msg : Msg) (ts : TsRef) (b : Bytes)
    (hgf : P.getField dm.global pf.num = some pf)
    (hnat : tcKind pf.tcode = .native) (harr : tcArray pf.tcode = false)
    (hstr : tcBase pf.tcode = Base.string)
    (hne : b ≠ []) (hfit : b.length < pf.length) (hnul : ∀ x ∈ b, x ≠ 0)
    (hutf : utf8Valid (b ++ List.replicate (pf.length - b.length) 0) = true) :
    ∃ part, writeField dm.arch pf (.sc .s) (.s b) = .ok part ∧ part.length = (fdOf pf).size ∧
      applyField P dm true (fdOf pf) part (some msg) ts =
        .ok (some { msg with vals := setAt msg.vals pf.sindex (.s b) }) ts := by
  obtain ⟨bs, he, hp⟩ := string_roundtrip dm.arch (fdOf pf) b pf.length hstr hne hfit hnul hutf
  have hsc : scOfBase (tcBase pf.tcode) = some .s := by rw [hstr]; decide
  have he' : encodeScalar dm.arch pf .s (.s b) = .ok bs := by
    unfold encodeScalar
    simp only [hnat, hstr, ↓reduceIte, he]
  exact ⟨bs, native_scalar_field P hwf dm pf msg ts _ _ bs hgf hnat harr hsc he' hp⟩

/-- **A date_time field, end to end**: whole seconds in range come back unchanged; the timestamp
    reference is re-based exactly when the field is number 253. -/
theorem time_field_roundtrip (P : Profile) (hwf : ProfileWF P = true) (dm : DefMsg) (pf : PField)
    (msg : Msg) (ts : TsRef) (secs : Nat)
    (hgf : P.getField dm.global pf.num = some pf)
    (hk : tcKind pf.tcode = .timeUTC) (h2 : secs < 4294967295) :
    ∃ part, writeField dm.arch pf .time (.t secs 0 0) = .ok part ∧ part.length = (fdOf pf).size ∧
      applyField P dm true (fdOf pf) part (some msg) ts =
        .ok (some { msg with vals := setAt msg.vals pf.sindex (.t secs 0 0) })
          (if pf.num = fieldNumTimeStamp then { timestamp := secs, lastOff := secs % 32 } else ts) := by
  obtain ⟨pm, hpm, hfw⟩ := getField_wf P hwf _ _ _ hgf
  have facts := fieldWF_facts pm pf hfw
  obtain ⟨k, hl, hslot⟩ := facts.slot
  have hkind := facts.kind
  rw [hk] at hkind
  obtain ⟨hpb, harr⟩ := hkind
  have hkt : k = .time := by
    unfold slotOfType at hslot
    rw [hk] at hslot
    simp only [harr, Bool.false_eq_true, ↓reduceIte, Option.some.injEq] at hslot
    exact hslot.symm
  subst hkt
  obtain ⟨bs, he, hp⟩ := time_value_roundtrip dm.arch pf ts secs hk h2
  have hwf' : writeField dm.arch pf .time (.t secs 0 0) = .ok bs := by
    unfold writeField
    simp only [harr, Bool.not_false, ↓reduceIte]
    exact he
  have hlen := writeField_length dm.arch pm pf _ _ bs facts hslot hwf'
  have hsz : szOf pf = 4 := by
    unfold szOf
    rw [hpb]
    have hne : ¬ (Base.uint32 = Base.string) := by decide
    simp only [harr, Bool.false_eq_true, ↓reduceIte, hne]
    decide
  refine ⟨bs, hwf', hlen, ?_⟩
  have hps : tcBase pf.tcode ≠ Base.string := by rw [hpb]; decide
  have hb4 : Base.size (tcBase pf.tcode) = 4 := by rw [hpb]; decide
  unfold applyField
  simp only [fdOf, hgf, hpm, hl, hk, harr]
  simp only [Bool.not_true, Bool.false_eq_true, ↓reduceIte, Bool.not_false]
  have hcond : tcBase pf.tcode ≠ Base.string ∧ True ∧ Kind.timeUTC ≠ Kind.native := ⟨hps, trivial, by simp⟩
  rw [if_pos hcond]
  have hpad : padTmp dm.arch (tcBase pf.tcode) bs (szOf pf) (Base.size (tcBase pf.tcode)) = bs := by
    unfold padTmp
    rw [hsz, hb4]
    simp
  rw [hpad]
  have hl4 : ¬ bs.length < 4 := by rw [hlen]; simp only [fdOf, hsz]; omega
  rw [if_neg hl4]
  have htk : bs.take 4 = bs := by
    have : bs.length = 4 := by rw [hlen]; simp only [fdOf, hsz]
    rw [← this]; exact List.take_length
  rw [htk]
  -- the value and the reference
  have hv : secs ≠ 0xFFFFFFFF := by omega
  have hpt : parseTimeStamp ts pf (dm.arch.dec bs) =
      (some (.t secs 0 0), if pf.num = fieldNumTimeStamp then { timestamp := secs, lastOff := secs % 32 } else ts) := by
    have hdec : dm.arch.dec bs = secs := by
      have : (parseTimeStamp ts pf (dm.arch.dec bs)).1 = some (.t secs 0 0) := hp
      unfold parseTimeStamp at this
      by_cases hx : dm.arch.dec bs = 0xFFFFFFFF
      · simp [hx] at this
      · simp only [hx, ↓reduceIte, hk] at this
        injection this with this
        injection this with this
        exact Int.ofNat.inj this
    rw [hdec]
    unfold parseTimeStamp
    simp only [hv, ↓reduceIte, hk]
  rw [hpt]
  simp

theorem toSigned32_roundtrip (z : Int) (hlo : -(2147483648 : Int) ≤ z) (hhi : z < 2147483648) :
    toSigned 32 ((toUnsigned 32 z) % 256 ^ 4) = z := by
  simp only [toSigned, toUnsigned, Nat.reducePow, Nat.reduceSub]
  apply ite_eq_of <;> intro h <;> omega

/-- **A coordinate field, end to end** (latitude: semicircles in [-2^30, 2^30); longitude: any
    32-bit value) -/
theorem coord_field_roundtrip (P : Profile) (hwf : ProfileWF P = true) (dm : DefMsg) (pf : PField)
    (msg : Msg) (ts : TsRef) (z : Int) (isLat : Bool)
    (hgf : P.getField dm.global pf.num = some pf)
    (hk : tcKind pf.tcode = (if isLat then .lat else .lng))
    (hzr : if isLat then ((-(1073741824 : Int) ≤ z ∧ z < 1073741824) ∨ z = 2147483647)
      else (-(2147483648 : Int) ≤ z ∧ z < 2147483648)) :
    ∃ part, writeField dm.arch pf (if isLat then .lat else .lng) (if isLat then .lat z else .lng z) = .ok part ∧
      part.length = (fdOf pf).size ∧
      applyField P dm true (fdOf pf) part (some msg) ts =
        .ok (some { msg with vals := setAt msg.vals pf.sindex (if isLat then .lat z else .lng z) }) ts := by
  obtain ⟨pm, hpm, hfw⟩ := getField_wf P hwf _ _ _ hgf
  have facts := fieldWF_facts pm pf hfw
  obtain ⟨k, hl, hslot⟩ := facts.slot
  have hkind := facts.kind
  have hz : -(2147483648 : Int) ≤ z ∧ z < 2147483648 := by
    cases isLat <;> simp only [Bool.false_eq_true, ↓reduceIte] at hzr <;> omega
  have hrt := toSigned32_roundtrip z hz.1 hz.2
  cases isLat with
  | true =>
    simp only [↓reduceIte] at hk hzr ⊢
    rw [hk] at hkind
    obtain ⟨hpb, harr⟩ := hkind
    have hkt : k = .lat := by
      unfold slotOfType at hslot
      rw [hk] at hslot
      simp only [harr, Bool.false_eq_true, ↓reduceIte, Option.some.injEq] at hslot
      exact hslot.symm
    subst hkt
    have hwf' : writeField dm.arch pf .lat (.lat z) = .ok (dm.arch.enc 4 (toUnsigned 32 z)) := by
      unfold writeField
      simp only [harr, Bool.not_false, ↓reduceIte]
      simp [encodeScalar, hk]
    have hlen := writeField_length dm.arch pm pf _ _ _ facts hslot hwf'
    refine ⟨_, hwf', hlen, ?_⟩
    have hps : tcBase pf.tcode ≠ Base.string := by rw [hpb]; decide
    have hb4 : Base.size (tcBase pf.tcode) = 4 := by rw [hpb]; decide
    have hsz : szOf pf = 4 := by rw [← hlen]; exact enc_length _ _ _
    unfold applyField
    simp only [fdOf, hgf, hpm, hl, hk, harr]
    simp only [Bool.not_true, Bool.false_eq_true, ↓reduceIte, Bool.not_false]
    have hcond : tcBase pf.tcode ≠ Base.string ∧ True ∧ Kind.lat ≠ Kind.native := ⟨hps, trivial, by simp⟩
    rw [if_pos hcond]
    have hpad : padTmp dm.arch (tcBase pf.tcode) (dm.arch.enc 4 (toUnsigned 32 z)) (szOf pf) (Base.size (tcBase pf.tcode)) =
        dm.arch.enc 4 (toUnsigned 32 z) := by
      unfold padTmp; rw [hsz, hb4]; simp
    rw [hpad]
    have hl4 : ¬ (dm.arch.enc 4 (toUnsigned 32 z)).length < 4 := by rw [enc_length]; omega
    rw [if_neg hl4]
    have htk : (dm.arch.enc 4 (toUnsigned 32 z)).take 4 = dm.arch.enc 4 (toUnsigned 32 z) := by
      apply List.take_of_length_le
      rw [enc_length]
    simp only [ne_eq, not_true_eq_false, ↓reduceIte]
    rw [htk, dec_enc, hrt]
    by_cases h1 : z = 2147483647
    · simp only [h1, ↓reduceIte]
    · have h2 : ¬ (z < -1073741824 ∨ z > 1073741823) := by omega
      simp only [h1, h2, ↓reduceIte]
  | false =>
    simp only [Bool.false_eq_true, ↓reduceIte] at hk hzr ⊢
    rw [hk] at hkind
    obtain ⟨hpb, harr⟩ := hkind
    have hkt : k = .lng := by
      unfold slotOfType at hslot
      rw [hk] at hslot
      simp only [harr, Bool.false_eq_true, ↓reduceIte, Option.some.injEq] at hslot
      exact hslot.symm
    subst hkt
    have hwf' : writeField dm.arch pf .lng (.lng z) = .ok (dm.arch.enc 4 (toUnsigned 32 z)) := by
      unfold writeField
      simp only [harr, Bool.not_false, ↓reduceIte]
      simp [encodeScalar, hk]
    have hlen := writeField_length dm.arch pm pf _ _ _ facts hslot hwf'
    refine ⟨_, hwf', hlen, ?_⟩
    have hps : tcBase pf.tcode ≠ Base.string := by rw [hpb]; decide
    have hb4 : Base.size (tcBase pf.tcode) = 4 := by rw [hpb]; decide
    have hsz : szOf pf = 4 := by rw [← hlen]; exact enc_length _ _ _
    unfold applyField
    simp only [fdOf, hgf, hpm, hl, hk, harr]
    simp only [Bool.not_true, Bool.false_eq_true, ↓reduceIte, Bool.not_false]
    have hcond : tcBase pf.tcode ≠ Base.string ∧ True ∧ Kind.lng ≠ Kind.native := ⟨hps, trivial, by simp⟩
    rw [if_pos hcond]
    have hpad : padTmp dm.arch (tcBase pf.tcode) (dm.arch.enc 4 (toUnsigned 32 z)) (szOf pf) (Base.size (tcBase pf.tcode)) =
        dm.arch.enc 4 (toUnsigned 32 z) := by
      unfold padTmp; rw [hsz, hb4]; simp
    rw [hpad]
    have hl4 : ¬ (dm.arch.enc 4 (toUnsigned 32 z)).length < 4 := by rw [enc_length]; omega
    rw [if_neg hl4]
    have htk : (dm.arch.enc 4 (toUnsigned 32 z)).take 4 = dm.arch.enc 4 (toUnsigned 32 z) := by
      apply List.take_of_length_le
      rw [enc_length]
    simp only [ne_eq, not_true_eq_false, ↓reduceIte]
    rw [htk, dec_enc, hrt]

/-! ### whole messages -/

/-- unsigned scalar fields satisfy the per-field round-trip condition of `message_roundtrip` -/
theorem fieldRT_unsigned (P : Profile) (hwf : ProfileWF P = true) (dm : DefMsg) (pf : PField) (w n : Nat)
    (hgf : P.getField dm.global pf.num = some pf)
    (hnat : tcKind pf.tcode = .native) (harr : tcArray pf.tcode = false)
    (hw : (w = 1 ∧ (tcBase pf.tcode = Base.enum ∨ tcBase pf.tcode = Base.byte ∨ tcBase pf.tcode = Base.uint8 ∨
              tcBase pf.tcode = Base.uint8z)) ∨
          (w = 2 ∧ (tcBase pf.tcode = Base.uint16 ∨ tcBase pf.tcode = Base.uint16z)) ∨
          (w = 4 ∧ (tcBase pf.tcode = Base.uint32 ∨ tcBase pf.tcode = Base.uint32z)))
    (hn : n < 256 ^ w) : FieldRT P dm pf (.sc (.u (8 * w))) (.u n) := by
  intro msg ts part hpart
  obtain ⟨part0, h1, _, h3⟩ := unsigned_field_roundtrip P hwf dm pf msg ts w n hgf hnat harr hw hn
  rw [h1] at hpart; cases hpart
  exact ⟨ts, h3⟩

theorem fieldRT_signed (P : Profile) (hwf : ProfileWF P = true) (dm : DefMsg) (pf : PField) (w : Nat) (z : Int)
    (hgf : P.getField dm.global pf.num = some pf)
    (hnat : tcKind pf.tcode = .native) (harr : tcArray pf.tcode = false)
    (hw : (w = 1 ∧ tcBase pf.tcode = Base.sint8) ∨ (w = 2 ∧ tcBase pf.tcode = Base.sint16) ∨
          (w = 4 ∧ tcBase pf.tcode = Base.sint32))
    (hlo : -(2 ^ (8 * w - 1) : Int) ≤ z) (hhi : z < (2 ^ (8 * w - 1) : Int)) :
    FieldRT P dm pf (.sc (.i (8 * w))) (.i z) := by
  intro msg ts part hpart
  obtain ⟨part0, h1, _, h3⟩ := signed_field_roundtrip P hwf dm pf msg ts w z hgf hnat harr hw hlo hhi
  rw [h1] at hpart; cases hpart
  exact ⟨ts, h3⟩

theorem fieldRT_string (P : Profile) (hwf : ProfileWF P = true) (dm : DefMsg) (pf : PField) (b : Bytes)
    (hgf : P.getField dm.global pf.num = some pf)
    (hnat : tcKind pf.tcode = .native) (harr : tcArray pf.tcode = false) (hstr : tcBase pf.tcode = Base.string)
    (hne : b ≠ []) (hfit : b.length < pf.length) (hnul : ∀ x ∈ b, x ≠ 0)
    (hutf : utf8Valid (b ++ List.replicate (pf.length - b.length) 0) = true) :
    FieldRT P dm pf (.sc .s) (.s b) := by
  intro msg ts part hpart
  obtain ⟨part0, h1, _, h3⟩ := string_field_roundtrip P hwf dm pf msg ts b hgf hnat harr hstr hne hfit hnul hutf
  rw [h1] at hpart; cases hpart
  exact ⟨ts, h3⟩

theorem fieldRT_time (P : Profile) (hwf : ProfileWF P = true) (dm : DefMsg) (pf : PField) (secs : Nat)
    (hgf : P.getField dm.global pf.num = some pf)
    (hk : tcKind pf.tcode = .timeUTC) (h2 : secs < 4294967295) :
    FieldRT P dm pf .time (.t secs 0 0) := by
  intro msg ts part hpart
  obtain ⟨part0, e1, _, e3⟩ := time_field_roundtrip P hwf dm pf msg ts secs hgf hk h2
  rw [e1] at hpart; cases hpart
  exact ⟨_, e3⟩

theorem fieldRT_lat (P : Profile) (hwf : ProfileWF P = true) (dm : DefMsg) (pf : PField) (z : Int)
    (hgf : P.getField dm.global pf.num = some pf) (hk : tcKind pf.tcode = .lat)
    (hz : (-(1073741824 : Int) ≤ z ∧ z < 1073741824) ∨ z = 2147483647) : FieldRT P dm pf .lat (.lat z) := by
  intro msg ts part hpart
  obtain ⟨part0, e1, _, e3⟩ := coord_field_roundtrip P hwf dm pf msg ts z true hgf hk hz
  simp only [↓reduceIte] at e1 e3
  rw [e1] at hpart; cases hpart
  exact ⟨ts, e3⟩

theorem fieldRT_lng (P : Profile) (hwf : ProfileWF P = true) (dm : DefMsg) (pf : PField) (z : Int)
    (hgf : P.getField dm.global pf.num = some pf) (hk : tcKind pf.tcode = .lng)
    (hlo : -(2147483648 : Int) ≤ z) (hhi : z < 2147483648) : FieldRT P dm pf .lng (.lng z) := by
  intro msg ts part hpart
  obtain ⟨part0, e1, _, e3⟩ := coord_field_roundtrip P hwf dm pf msg ts z false hgf hk ⟨hlo, hhi⟩
  simp only [Bool.false_eq_true, ↓reduceIte] at e1 e3
  rw [e1] at hpart; cases hpart
  exact ⟨ts, e3⟩

/-- **Encode then Decode returns the message that was put in** (field loop level): for any message
    of a known type that `Encode` accepts, whose valid fields are of kinds that round-trip
    (`FieldRT`: established above for unsigned and signed scalars, strings, date_time values and coordinates)
    and whose other fields hold the constructor's invalid values, the decoder — reading the data
    record with the definition record that `Encode` wrote — rebuilds exactly that message. -/
theorem message_roundtrip (P : Profile) (hwf : ProfileWF P = true) (arch : Endian) (m : Msg) (bs : Bytes)
    (pm : PMsg) (hpm : P.msg? m.num = some pm) (hkn : pm.known = true)
    (h : encodeOne P arch m = .ok bs)
    (hrt : ∀ pf ∈ pm.fields, ∀ k v, pm.layout[pf.sindex]? = some k → m.vals[pf.sindex]? = some v →
      isInvalidVal pm pf.sindex v = false → ∀ fs, FieldRT P (defOf arch m.num fs) pf k v)
    (hinv : ∀ i v, m.vals[i]? = some v → isInvalidVal pm i v = true → pm.invalid[i]? = some v) :
    ∃ (fs : List PField) (parts : List Bytes),
      bs = serialize [.defn (defOf arch m.num fs) false, .data 0 parts []] ∧
      ∀ st : DecSt, ∃ st', stepFields P (defOf arch m.num fs) true (defOf arch m.num fs).fields parts
        (some ⟨m.num, pm.invalid⟩) st = .ok (some m) st' := by
  obtain ⟨fs, parts, h1, _, _, _, h5⟩ := Fit.message_roundtrip P hwf arch m bs pm hpm hkn h hrt hinv
  exact ⟨fs, parts, h1, h5⟩

/-- one concrete message through the whole model: `encodeOne`, the 14-byte header and file CRC of
    `frameBytes`, then the byte-level decoder (header, CRCs, definition, data, routing) -/
def exampleFileId : Msg := ⟨0, [.u 4, .u 1, .u 2, .u 3, .t 100 0 0, .u 5, .s [65, 66]]⟩

def encodeDecode (m : Msg) : Option Msg :=
  match encodeOne Gen.profile .le m with
  | .ok bs =>
    let o := (decodeSpec Gen.profile {} .full {} (frameBytes 0x20 2115 bs) .eof).1
    if o.err.isSome then none else o.st.file.map FileSt.fileId
  | _ => none

set_option maxRecDepth 100000 in
/-- kernel-evaluated on the regenerated profile: type, manufacturer, product, serial number,
    time_created, number and product_name all come back -/
example : encodeDecode exampleFileId = some exampleFileId := by decide +kernel



/-! ### full-length arrays of unsigned elements -/

/-- **An array field of unsigned elements, end to end**: an array of exactly the profile's length,
    every element within the element type, comes back element for element. -/
theorem fieldRT_unsigned_array (P : Profile) (hwf : ProfileWF P = true) (dm : DefMsg) (pf : PField) (w : Nat) (xs : List Nat)
    (hgf : P.getField dm.global pf.num = some pf)
    (hnat : tcKind pf.tcode = .native) (harr : tcArray pf.tcode = true)
    (hw : (w = 1 ∧ (tcBase pf.tcode = Base.enum ∨ tcBase pf.tcode = Base.uint8 ∨ tcBase pf.tcode = Base.uint8z)) ∨
          (w = 2 ∧ (tcBase pf.tcode = Base.uint16 ∨ tcBase pf.tcode = Base.uint16z)) ∨
          (w = 4 ∧ (tcBase pf.tcode = Base.uint32 ∨ tcBase pf.tcode = Base.uint32z)))
    (hlen : xs.length = pf.length) (hx : ∀ x ∈ xs, x < 256 ^ w) :
    FieldRT P dm pf (.sl (.u (8 * w))) (.us (some xs)) := by
  intro msg ts part hpart
  obtain ⟨pm, hpm, hfw⟩ := getField_wf P hwf _ _ _ hgf
  have facts := fieldWF_facts pm pf hfw
  obtain ⟨k, hl, hslot⟩ := facts.slot
  have hw' : (w = 1 ∧ (tcBase pf.tcode = Base.enum ∨ tcBase pf.tcode = Base.byte ∨ tcBase pf.tcode = Base.uint8 ∨
      tcBase pf.tcode = Base.uint8z)) ∨ (w = 2 ∧ (tcBase pf.tcode = Base.uint16 ∨ tcBase pf.tcode = Base.uint16z)) ∨
      (w = 4 ∧ (tcBase pf.tcode = Base.uint32 ∨ tcBase pf.tcode = Base.uint32z)) := by
    rcases hw with ⟨h1, h | h | h⟩ | h | h
    · exact Or.inl ⟨h1, Or.inl h⟩
    · exact Or.inl ⟨h1, Or.inr (Or.inr (Or.inl h))⟩
    · exact Or.inl ⟨h1, Or.inr (Or.inr (Or.inr h))⟩
    · exact Or.inr (Or.inl h)
    · exact Or.inr (Or.inr h)
  obtain ⟨hsc, hns, hsize⟩ := unsigned_slot_width (tcBase pf.tcode) w hw'
  have hnb : tcBase pf.tcode ≠ Base.byte := by
    rcases hw with ⟨_, h | h | h⟩ | ⟨_, h | h⟩ | ⟨_, h | h⟩ <;> (rw [h]; decide)
  have hk : k = .sl (.u (8 * w)) := by
    unfold slotOfType at hslot
    rw [hnat] at hslot
    simp only [hsc, harr, ↓reduceIte, Option.some.injEq] at hslot
    exact hslot.symm
  subst hk
  have hl256 : pf.length < 256 := by
    have := facts.lenB (Or.inl harr)
    rw [hsize] at this
    rcases hw with ⟨h, _⟩ | ⟨h, _⟩ | ⟨h, _⟩ <;> (subst h; omega)
  have hwpos : 0 < w := by rcases hw with ⟨h, _⟩ | ⟨h, _⟩ | ⟨h, _⟩ <;> omega
  rw [writeField_unsigned_array dm.arch pf w xs harr hns hnat hlen hl256] at hpart
  cases hpart
  have hplen : ((xs.map (dm.arch.enc w)).flatten).length = w * pf.length := by
    have : ∀ l : List Nat, ((l.map (dm.arch.enc w)).flatten).length = w * l.length := by
      intro l
      induction l with
      | nil => simp
      | cons a as ih =>
        simp only [List.map_cons, List.flatten_cons, List.length_append, enc_length, ih, List.length_cons, Nat.mul_succ]
        omega
    rw [this, hlen]
  have hsz : szOf pf = w * pf.length := by
    unfold szOf
    simp only [hns, ↓reduceIte, harr, hsize]
    have := facts.lenB (Or.inl harr)
    rw [hsize] at this
    omega
  refine ⟨ts, ?_⟩
  unfold applyField
  simp only [fdOf, hgf, hpm, hl, hnat, harr]
  simp only [Bool.not_true, Bool.false_eq_true, ↓reduceIte, Bool.not_false, and_false, false_and]
  have htake : ((xs.map (dm.arch.enc w)).flatten).take (szOf pf) = (xs.map (dm.arch.enc w)).flatten := by
    apply List.take_of_length_le; rw [hplen, hsz]
  rw [htake]
  have hparse : parseFitFieldArray dm.arch ⟨pf.num, szOf pf, tcBase pf.tcode⟩ (.sl (.u (8 * w))) (xs.map (dm.arch.enc w)).flatten =
      .ok (some (.us (some xs))) := by
    unfold parseFitFieldArray
    simp only [hnb, ↓reduceIte, hsize]
    have hw0 : ¬ w = 0 := by omega
    simp only [hw0, ↓reduceIte]
    rw [chunks_encodings dm.arch w hwpos xs _ (Nat.le_refl _)]
    have hun : (tcBase pf.tcode = Base.uint8 ∨ tcBase pf.tcode = Base.uint8z ∨ tcBase pf.tcode = Base.enum ∨
        tcBase pf.tcode = Base.uint16 ∨ tcBase pf.tcode = Base.uint16z ∨ tcBase pf.tcode = Base.uint32 ∨
        tcBase pf.tcode = Base.uint32z) := by
      rcases hw with ⟨_, h | h | h⟩ | ⟨_, h | h⟩ | ⟨_, h | h⟩ <;> simp [h]
    simp only [hun, ↓reduceIte]
    rw [List.mapM_map]
    have hm : ∀ l : List Nat, (∀ x ∈ l, x < 256 ^ w) →
        (l.mapM fun e => setUint (.sc (.u (8 * w))) (dm.arch.dec (dm.arch.enc w e))) = some (l.map Val.u) := by
      intro l hl
      induction l with
      | nil => rfl
      | cons a as ih =>
        rw [List.mapM_cons, ih (fun x hx' => hl x (List.mem_cons_of_mem _ hx'))]
        have ha := hl a (List.mem_cons_self ..)
        have e256 : (256 : Nat) ^ w = 2 ^ (8 * w) := by
          rw [show (256 : Nat) = 2 ^ 8 by rfl, ← Nat.pow_mul]
        simp only [setUint, dec_enc, Nat.mod_eq_of_lt ha]
        rw [Nat.mod_eq_of_lt (by rw [← e256]; exact ha)]
        rfl
    simp only [Function.comp_def]
    rw [hm xs hx]
    simp only
    congr 4
    clear hm hx hlen hplen htake
    induction xs with
    | nil => rfl
    | cons a as ih => simp only [List.map_cons, List.filterMap_cons, ih]
  rw [hparse]


theorem enc_one (arch : Endian) (x : Nat) : arch.enc 1 x = [UInt8.ofNat (x % 256)] := by
  cases arch <;> simp [Endian.enc, natLE, natBE]

/-- **A byte-array field, end to end** (full length, every element a byte). -/
theorem fieldRT_byte_array (P : Profile) (hwf : ProfileWF P = true) (dm : DefMsg) (pf : PField) (xs : List Nat)
    (hgf : P.getField dm.global pf.num = some pf)
    (hnat : tcKind pf.tcode = .native) (harr : tcArray pf.tcode = true) (hb : tcBase pf.tcode = Base.byte)
    (hlen : xs.length = pf.length) (hx : ∀ x ∈ xs, x < 256) :
    FieldRT P dm pf (.sl (.u 8)) (.us (some xs)) := by
  intro msg ts part hpart
  obtain ⟨pm, hpm, hfw⟩ := getField_wf P hwf _ _ _ hgf
  have facts := fieldWF_facts pm pf hfw
  obtain ⟨k, hl, hslot⟩ := facts.slot
  have hsc : scOfBase (tcBase pf.tcode) = some (.u 8) := by rw [hb]; decide
  have hns : tcBase pf.tcode ≠ Base.string := by rw [hb]; decide
  have hsize : Base.size (tcBase pf.tcode) = 1 := by rw [hb]; decide
  have hk : k = .sl (.u 8) := by
    unfold slotOfType at hslot
    rw [hnat] at hslot
    simp only [hsc, harr, ↓reduceIte, Option.some.injEq] at hslot
    exact hslot.symm
  subst hk
  have hl256 : pf.length < 256 := by
    have := facts.lenB (Or.inl harr)
    rw [hsize] at this
    omega
  have hw := writeField_unsigned_array dm.arch pf 1 xs harr hns hnat hlen hl256
  rw [show (8 * 1 : Nat) = 8 by rfl] at hw
  rw [hw] at hpart
  cases hpart
  have hflat : (xs.map (dm.arch.enc 1)).flatten = xs.map fun x => UInt8.ofNat (x % 256) := by
    have : ∀ l : List Nat, (l.map (dm.arch.enc 1)).flatten = l.map fun x => UInt8.ofNat (x % 256) := by
      intro l
      induction l with
      | nil => rfl
      | cons a as ih => simp only [List.map_cons, List.flatten_cons, enc_one, ih, List.singleton_append]
    exact this xs
  have hsz : szOf pf = pf.length := by
    unfold szOf
    simp only [hns, ↓reduceIte, harr, hsize]
    omega
  refine ⟨ts, ?_⟩
  unfold applyField
  simp only [fdOf, hgf, hpm, hl, hnat, harr]
  simp only [Bool.not_true, Bool.false_eq_true, ↓reduceIte, and_false, false_and]
  have htake : ((xs.map (dm.arch.enc 1)).flatten).take (szOf pf) = (xs.map (dm.arch.enc 1)).flatten := by
    apply List.take_of_length_le
    rw [hflat, List.length_map, hsz, hlen]
  rw [htake]
  have hparse : parseFitFieldArray dm.arch ⟨pf.num, szOf pf, tcBase pf.tcode⟩ (.sl (.u 8)) (xs.map (dm.arch.enc 1)).flatten =
      .ok (some (.us (some xs))) := by
    unfold parseFitFieldArray
    simp only [hb, ↓reduceIte]
    congr 4
    rw [hflat, List.map_map]
    have : ∀ l : List Nat, (∀ x ∈ l, x < 256) → l.map ((fun b : UInt8 => b.toNat) ∘ fun x => UInt8.ofNat (x % 256)) = l := by
      intro l hl
      induction l with
      | nil => rfl
      | cons a as ih =>
        have ha := hl a (List.mem_cons_self ..)
        simp only [List.map_cons, Function.comp, ih (fun x hx' => hl x (List.mem_cons_of_mem _ hx'))]
        congr 1
        simp [Nat.mod_eq_of_lt ha]
    exact this xs hx
  rw [hparse]

theorem setInt_dec_enc (arch : Endian) (w : Nat) (hw : w = 1 ∨ w = 2 ∨ w = 4) (z : Int)
    (hlo : -(2 ^ (8 * w - 1) : Int) ≤ z) (hhi : z < (2 ^ (8 * w - 1) : Int)) :
    setInt (.sc (.i (8 * w))) ((arch.dec (arch.enc w (toUnsigned (8 * w) z)) : Nat) : Int) = some (.i z) := by
  rw [dec_enc]
  rcases hw with rfl | rfl | rfl
  all_goals
    simp only [setInt, toSigned, toUnsigned, Nat.reducePow, Nat.reduceSub, Int.reducePow, Nat.reduceMul, Option.some.injEq,
      Val.i.injEq] at *
    apply Fit.Props.C02.ite_eq_of <;> intro h <;> omega

/-- **An array field of signed elements, end to end** (full length, every element within the
    element type): two's complement out, two's complement back. -/
theorem fieldRT_signed_array (P : Profile) (hwf : ProfileWF P = true) (dm : DefMsg) (pf : PField) (w : Nat) (zs : List Int)
    (hgf : P.getField dm.global pf.num = some pf)
    (hnat : tcKind pf.tcode = .native) (harr : tcArray pf.tcode = true)
    (hw : (w = 1 ∧ tcBase pf.tcode = Base.sint8) ∨ (w = 2 ∧ tcBase pf.tcode = Base.sint16) ∨
          (w = 4 ∧ tcBase pf.tcode = Base.sint32))
    (hlen : zs.length = pf.length)
    (hz : ∀ z ∈ zs, -(2 ^ (8 * w - 1) : Int) ≤ z ∧ z < (2 ^ (8 * w - 1) : Int)) :
    FieldRT P dm pf (.sl (.i (8 * w))) (.is (some zs)) := by
  intro msg ts part hpart
  obtain ⟨pm, hpm, hfw⟩ := getField_wf P hwf _ _ _ hgf
  have facts := fieldWF_facts pm pf hfw
  obtain ⟨k, hl, hslot⟩ := facts.slot
  obtain ⟨hsc, hns⟩ := signed_slot_width (tcBase pf.tcode) w hw
  have hsize : Base.size (tcBase pf.tcode) = w := by
    rcases hw with ⟨h1, h⟩ | ⟨h1, h⟩ | ⟨h1, h⟩ <;> (subst h1; rw [h]; decide)
  have hnb : tcBase pf.tcode ≠ Base.byte := by
    rcases hw with ⟨_, h⟩ | ⟨_, h⟩ | ⟨_, h⟩ <;> (rw [h]; decide)
  have hw3 : w = 1 ∨ w = 2 ∨ w = 4 := by rcases hw with ⟨h, _⟩ | ⟨h, _⟩ | ⟨h, _⟩ <;> simp [h]
  have hk : k = .sl (.i (8 * w)) := by
    unfold slotOfType at hslot
    rw [hnat] at hslot
    simp only [hsc, harr, ↓reduceIte, Option.some.injEq] at hslot
    exact hslot.symm
  subst hk
  have hwpos : 0 < w := by rcases hw3 with h | h | h <;> omega
  rw [writeField_signed_short dm.arch pf w (some zs) harr hns hnat hsize (by simp [hlen])] at hpart
  simp only [Option.getD_some, hlen, Nat.sub_self, List.replicate_zero, List.flatten_nil, List.append_nil] at hpart
  cases hpart
  have hmapeq : (zs.map fun z => dm.arch.enc w (toUnsigned (8 * w) z)) =
      (zs.map (toUnsigned (8 * w))).map (dm.arch.enc w) := by
    rw [List.map_map]; rfl
  rw [hmapeq]
  have hplen : (((zs.map (toUnsigned (8 * w))).map (dm.arch.enc w)).flatten).length = w * pf.length := by
    have : ∀ l : List Nat, ((l.map (dm.arch.enc w)).flatten).length = w * l.length := by
      intro l
      induction l with
      | nil => simp
      | cons a as ih =>
        simp only [List.map_cons, List.flatten_cons, List.length_append, enc_length, ih, List.length_cons, Nat.mul_succ]
        omega
    rw [this, List.length_map, hlen]
  have hsz : szOf pf = w * pf.length := by
    unfold szOf
    simp only [hns, ↓reduceIte, harr, hsize]
    have := facts.lenB (Or.inl harr)
    rw [hsize] at this
    omega
  refine ⟨ts, ?_⟩
  unfold applyField
  simp only [fdOf, hgf, hpm, hl, hnat, harr]
  simp only [Bool.not_true, Bool.false_eq_true, ↓reduceIte, Bool.not_false, and_false, false_and]
  have htake : (((zs.map (toUnsigned (8 * w))).map (dm.arch.enc w)).flatten).take (szOf pf) =
      ((zs.map (toUnsigned (8 * w))).map (dm.arch.enc w)).flatten := by
    apply List.take_of_length_le; rw [hplen, hsz]
  rw [htake]
  have hparse : parseFitFieldArray dm.arch ⟨pf.num, szOf pf, tcBase pf.tcode⟩ (.sl (.i (8 * w)))
      ((zs.map (toUnsigned (8 * w))).map (dm.arch.enc w)).flatten = .ok (some (.is (some zs))) := by
    unfold parseFitFieldArray
    simp only [hnb, ↓reduceIte, hsize]
    have hw0 : ¬ w = 0 := by omega
    simp only [hw0, ↓reduceIte]
    rw [chunks_encodings dm.arch w hwpos _ _ (Nat.le_refl _)]
    have hnun : ¬ (tcBase pf.tcode = Base.uint8 ∨ tcBase pf.tcode = Base.uint8z ∨ tcBase pf.tcode = Base.enum ∨
        tcBase pf.tcode = Base.uint16 ∨ tcBase pf.tcode = Base.uint16z ∨ tcBase pf.tcode = Base.uint32 ∨
        tcBase pf.tcode = Base.uint32z) := by
      rcases hw with ⟨_, h⟩ | ⟨_, h⟩ | ⟨_, h⟩ <;> (rw [h]; decide)
    have hsi : (tcBase pf.tcode = Base.sint8 ∨ tcBase pf.tcode = Base.sint16 ∨ tcBase pf.tcode = Base.sint32) := by
      rcases hw with ⟨_, h⟩ | ⟨_, h⟩ | ⟨_, h⟩ <;> simp [h]
    simp only [hnun, hsi, ↓reduceIte]
    rw [List.mapM_map, List.mapM_map]
    have hm : ∀ l : List Int, (∀ z ∈ l, -(2 ^ (8 * w - 1) : Int) ≤ z ∧ z < (2 ^ (8 * w - 1) : Int)) →
        (l.mapM ((fun e => setInt (.sc (.i (8 * w))) ((dm.arch.dec e : Nat) : Int)) ∘ dm.arch.enc w ∘ toUnsigned (8 * w))) =
          some (l.map Val.i) := by
      intro l hl
      induction l with
      | nil => rfl
      | cons a as ih =>
        rw [List.mapM_cons, ih (fun x hx' => hl x (List.mem_cons_of_mem _ hx'))]
        have ha := hl a (List.mem_cons_self ..)
        simp only [Function.comp]
        rw [setInt_dec_enc dm.arch w hw3 a ha.1 ha.2]
        rfl
    simp only [Function.comp_def] at hm ⊢
    rw [hm zs hz]
    simp only
    congr 4
    clear hm hz hlen hplen htake hmapeq
    induction zs with
    | nil => rfl
    | cons a as ih => simp only [List.map_cons, List.filterMap_cons, ih]
  rw [hparse]

/-- signed arrays no longer than the profile length, and nil arrays as fillers -/
theorem fieldRTG_signed_array (P : Profile) (hwf : ProfileWF P = true) (dm : DefMsg) (pf : PField) (w : Nat)
    (zs : Option (List Int)) (hgf : P.getField dm.global pf.num = some pf)
    (hnat : tcKind pf.tcode = .native) (harr : tcArray pf.tcode = true)
    (hw : (w = 1 ∧ tcBase pf.tcode = Base.sint8) ∨ (w = 2 ∧ tcBase pf.tcode = Base.sint16) ∨
          (w = 4 ∧ tcBase pf.tcode = Base.sint32))
    (hlen : (zs.getD []).length ≤ pf.length)
    (hz : ∀ z ∈ zs.getD [], -(2 ^ (8 * w - 1) : Int) ≤ z ∧ z < (2 ^ (8 * w - 1) : Int)) (inv : Val) :
    FieldRTG P dm pf (.sl (.i (8 * w))) (.is zs) inv (padVal pf (.is zs)) := by
  intro msg ts part _ hpart
  obtain ⟨_, hns⟩ := signed_slot_width (tcBase pf.tcode) w hw
  have hsize : Base.size (tcBase pf.tcode) = w := by
    rcases hw with ⟨h1, h⟩ | ⟨h1, h⟩ | ⟨h1, h⟩ <;> (subst h1; rw [h]; decide)
  have hinv : toUnsigned (8 * w) (Base.invalidNat (tcBase pf.tcode) : Nat) = Base.invalidNat (tcBase pf.tcode) := by
    rcases hw with ⟨h1, h⟩ | ⟨h1, h⟩ | ⟨h1, h⟩ <;> (subst h1; rw [h]; decide)
  have hinvr : -(2 ^ (8 * w - 1) : Int) ≤ ((Base.invalidNat (tcBase pf.tcode) : Nat) : Int) ∧
      ((Base.invalidNat (tcBase pf.tcode) : Nat) : Int) < (2 ^ (8 * w - 1) : Int) := by
    rcases hw with ⟨h1, h⟩ | ⟨h1, h⟩ | ⟨h1, h⟩ <;> (subst h1; rw [h]; decide)
  rw [writeField_pad_signed dm.arch pf w zs harr hns hnat hsize hlen hinv] at hpart
  have hfull := fieldRT_signed_array P hwf dm pf w
    (zs.getD [] ++ List.replicate (pf.length - (zs.getD []).length) ((Base.invalidNat (tcBase pf.tcode) : Nat) : Int))
    hgf hnat harr hw (by simp only [List.length_append, List.length_replicate]; omega)
    (by
      intro x hxm
      rw [List.mem_append] at hxm
      rcases hxm with h | h
      · exact hz x h
      · rw [(List.mem_replicate.mp h).2]; exact hinvr)
  have e : padVal pf (.is zs) = .is (some (zs.getD [] ++
      List.replicate (pf.length - (zs.getD []).length) ((Base.invalidNat (tcBase pf.tcode) : Nat) : Int))) := by
    simp only [padVal, harr, ↓reduceIte]
  rw [e]
  exact hfull msg ts part hpart

/-! ### arrays shorter than the profile length, and nil arrays written as fillers -/

/-- **An array of unsigned elements no longer than the profile length** (or a nil array written
    as a filler) comes back padded with the base type's invalid value to the profile length. -/
theorem fieldRTG_unsigned_array (P : Profile) (hwf : ProfileWF P = true) (dm : DefMsg) (pf : PField) (w : Nat)
    (xs : Option (List Nat)) (hgf : P.getField dm.global pf.num = some pf)
    (hnat : tcKind pf.tcode = .native) (harr : tcArray pf.tcode = true)
    (hw : (w = 1 ∧ (tcBase pf.tcode = Base.enum ∨ tcBase pf.tcode = Base.uint8 ∨ tcBase pf.tcode = Base.uint8z)) ∨
          (w = 2 ∧ (tcBase pf.tcode = Base.uint16 ∨ tcBase pf.tcode = Base.uint16z)) ∨
          (w = 4 ∧ (tcBase pf.tcode = Base.uint32 ∨ tcBase pf.tcode = Base.uint32z)))
    (hlen : (xs.getD []).length ≤ pf.length) (hx : ∀ x ∈ xs.getD [], x < 256 ^ w) (inv : Val) :
    FieldRTG P dm pf (.sl (.u (8 * w))) (.us xs) inv (padVal pf (.us xs)) := by
  intro msg ts part _ hpart
  have hw' : (w = 1 ∧ (tcBase pf.tcode = Base.enum ∨ tcBase pf.tcode = Base.byte ∨ tcBase pf.tcode = Base.uint8 ∨
      tcBase pf.tcode = Base.uint8z)) ∨ (w = 2 ∧ (tcBase pf.tcode = Base.uint16 ∨ tcBase pf.tcode = Base.uint16z)) ∨
      (w = 4 ∧ (tcBase pf.tcode = Base.uint32 ∨ tcBase pf.tcode = Base.uint32z)) := by
    rcases hw with ⟨h1, h | h | h⟩ | h | h
    · exact Or.inl ⟨h1, Or.inl h⟩
    · exact Or.inl ⟨h1, Or.inr (Or.inr (Or.inl h))⟩
    · exact Or.inl ⟨h1, Or.inr (Or.inr (Or.inr h))⟩
    · exact Or.inr (Or.inl h)
    · exact Or.inr (Or.inr h)
  obtain ⟨_, hns, hsize⟩ := unsigned_slot_width (tcBase pf.tcode) w hw'
  rw [writeField_pad dm.arch pf w xs harr hns hnat hsize hlen] at hpart
  have hinvlt : Base.invalidNat (tcBase pf.tcode) < 256 ^ w := by
    rcases hw with ⟨h1, h | h | h⟩ | ⟨h1, h | h⟩ | ⟨h1, h | h⟩ <;> (subst h1; rw [h]; decide)
  have hfull := fieldRT_unsigned_array P hwf dm pf w
    (xs.getD [] ++ List.replicate (pf.length - (xs.getD []).length) (Base.invalidNat (tcBase pf.tcode)))
    hgf hnat harr hw (by simp only [List.length_append, List.length_replicate]; omega)
    (by
      intro x hxm
      rw [List.mem_append] at hxm
      rcases hxm with h | h
      · exact hx x h
      · rw [(List.mem_replicate.mp h).2]; exact hinvlt)
  have e : padVal pf (.us xs) = .us (some (xs.getD [] ++
      List.replicate (pf.length - (xs.getD []).length) (Base.invalidNat (tcBase pf.tcode)))) := by
    simp only [padVal, harr, ↓reduceIte]
  rw [e]
  exact hfull msg ts part hpart

/-- the same for byte arrays -/
theorem fieldRTG_byte_array (P : Profile) (hwf : ProfileWF P = true) (dm : DefMsg) (pf : PField)
    (xs : Option (List Nat)) (hgf : P.getField dm.global pf.num = some pf)
    (hnat : tcKind pf.tcode = .native) (harr : tcArray pf.tcode = true) (hb : tcBase pf.tcode = Base.byte)
    (hlen : (xs.getD []).length ≤ pf.length) (hx : ∀ x ∈ xs.getD [], x < 256) (inv : Val) :
    FieldRTG P dm pf (.sl (.u 8)) (.us xs) inv (padVal pf (.us xs)) := by
  intro msg ts part _ hpart
  have hns : tcBase pf.tcode ≠ Base.string := by rw [hb]; decide
  have hsize : Base.size (tcBase pf.tcode) = 1 := by rw [hb]; decide
  have hp := writeField_pad dm.arch pf 1 xs harr hns hnat hsize hlen
  rw [show (8 * 1 : Nat) = 8 by rfl] at hp
  rw [hp] at hpart
  have hfull := fieldRT_byte_array P hwf dm pf
    (xs.getD [] ++ List.replicate (pf.length - (xs.getD []).length) (Base.invalidNat (tcBase pf.tcode)))
    hgf hnat harr hb (by simp only [List.length_append, List.length_replicate]; omega)
    (by
      intro x hxm
      rw [List.mem_append] at hxm
      rcases hxm with h | h
      · exact hx x h
      · rw [(List.mem_replicate.mp h).2, hb]; decide)
  have e : padVal pf (.us xs) = .us (some (xs.getD [] ++
      List.replicate (pf.length - (xs.getD []).length) (Base.invalidNat (tcBase pf.tcode)))) := by
    simp only [padVal, harr, ↓reduceIte]
  rw [e]
  exact hfull msg ts part hpart

/-! ### the empty string as a filler -/

theorem utf8Valid_zeros (n : Nat) : utf8Valid (List.replicate n 0) = true := by
  induction n with
  | zero => rfl
  | succ k ih =>
    rw [List.replicate_succ]
    unfold utf8Valid
    simp only [UInt8.toNat_zero, Nat.zero_lt_succ, ↓reduceIte]
    exact ih

theorem setAt_same_val {α} (l : List α) (i : Nat) (v : α) (h : l[i]? = some v) : setAt l i v = l := by
  induction l generalizing i with
  | nil => rfl
  | cons x xs ih =>
    cases i with
    | zero => simp at h; subst h; rfl
    | succ i => simp only [List.getElem?_cons_succ] at h; simp only [setAt, ih i h]

/-- an unset string field written as a filler (all zero bytes) is read back as "nothing to store":
    the message under construction, which still holds the empty string there, is unchanged -/
theorem fieldRTI_string_empty (P : Profile) (hwf : ProfileWF P = true) (dm : DefMsg) (pf : PField)
    (hgf : P.getField dm.global pf.num = some pf)
    (hnat : tcKind pf.tcode = .native) (harr : tcArray pf.tcode = false) (hstr : tcBase pf.tcode = Base.string) :
    FieldRTI P dm pf (.sc .s) (.s []) (.s []) := by
  intro msg ts part hcur hpart
  obtain ⟨pm, hpm, hfw⟩ := getField_wf P hwf _ _ _ hgf
  have facts := fieldWF_facts pm pf hfw
  obtain ⟨k, hl, hslot⟩ := facts.slot
  have hsc : scOfBase (tcBase pf.tcode) = some .s := by rw [hstr]; decide
  have hk : k = .sc .s := by
    unfold slotOfType at hslot
    rw [hnat] at hslot
    simp only [hsc, harr, Bool.false_eq_true, ↓reduceIte, Option.some.injEq] at hslot
    exact hslot.symm
  subst hk
  have hlen := writeField_length dm.arch pm pf _ _ part facts hslot hpart
  -- what was written: zeros
  have hzeros : part = List.replicate pf.length 0 := by
    unfold writeField at hpart
    simp only [harr, Bool.not_false, ↓reduceIte, encodeScalar, hnat, hstr] at hpart
    unfold encodeString at hpart
    have hn : ¬ pf.length = 0 := by have := facts.len1; omega
    simp only [hn, ↓reduceIte, List.length_nil, Nat.zero_le, Nat.min_eq_left, List.take_nil, List.nil_append,
      Nat.sub_zero, utf8Valid_zeros] at hpart
    cases hpart
    rfl
  refine ⟨ts, ?_⟩
  unfold applyField
  simp only [fdOf, hgf, hpm, hl, hnat, harr]
  simp only [Bool.not_true, Bool.false_eq_true, ↓reduceIte, Bool.not_false]
  have hnn2 : ¬ (tcBase pf.tcode ≠ Base.string ∧ True ∧ Kind.native ≠ Kind.native) := fun h => h.2.2 rfl
  rw [if_neg hnn2]
  have htake : part.take (szOf pf) = part := by rw [← hlen]; exact List.take_length
  rw [htake]
  have hp : parseFitField dm.arch ⟨pf.num, szOf pf, tcBase pf.tcode⟩ (.sc .s) part = .ok none := by
    rw [string_field_denotes dm.arch _ _ hstr, hzeros]
    have : (List.replicate pf.length (0 : UInt8)).takeWhile (· != 0) = [] := by
      cases hh : pf.length with
      | zero => simp
      | succ k => simp [List.replicate_succ]
    rw [this]
    rfl
  rw [hp]
  simp only
  rw [setAt_same_val _ _ _ hcur]

/-! ### whole Files: a decidable round-trip domain -/

/-- is value `v`, stored in a Go field of kind `k`, inside the scalar round-trip domain of profile
    field `pf`? -/
def valRT (pf : PField) (k : SlotKind) (v : Val) : Bool :=
  match k, v with
  | .sc (.u 8), .u n =>
    tcKind pf.tcode == .native && !tcArray pf.tcode && decide (n < 256) &&
      (tcBase pf.tcode == Base.enum || tcBase pf.tcode == Base.byte || tcBase pf.tcode == Base.uint8 ||
        tcBase pf.tcode == Base.uint8z)
  | .sc (.u 16), .u n =>
    tcKind pf.tcode == .native && !tcArray pf.tcode && decide (n < 65536) &&
      (tcBase pf.tcode == Base.uint16 || tcBase pf.tcode == Base.uint16z)
  | .sc (.u 32), .u n =>
    tcKind pf.tcode == .native && !tcArray pf.tcode && decide (n < 4294967296) &&
      (tcBase pf.tcode == Base.uint32 || tcBase pf.tcode == Base.uint32z)
  | .sc (.i 8), .i z =>
    tcKind pf.tcode == .native && !tcArray pf.tcode && decide (-128 ≤ z ∧ z < 128) && tcBase pf.tcode == Base.sint8
  | .sc (.i 16), .i z =>
    tcKind pf.tcode == .native && !tcArray pf.tcode && decide (-32768 ≤ z ∧ z < 32768) && tcBase pf.tcode == Base.sint16
  | .sc (.i 32), .i z =>
    tcKind pf.tcode == .native && !tcArray pf.tcode && decide (-2147483648 ≤ z ∧ z < 2147483648) &&
      tcBase pf.tcode == Base.sint32
  | .sc .s, .s b =>
    tcKind pf.tcode == .native && !tcArray pf.tcode && tcBase pf.tcode == Base.string &&
      !b.isEmpty && decide (b.length < pf.length) && b.all (· != 0) &&
      utf8Valid (b ++ List.replicate (pf.length - b.length) 0)
  | .sl (.u 8), .us (some xs) =>
    tcKind pf.tcode == .native && tcArray pf.tcode && decide (xs.length = pf.length) && xs.all (fun x => decide (x < 256)) &&
      (tcBase pf.tcode == Base.enum || tcBase pf.tcode == Base.uint8 || tcBase pf.tcode == Base.uint8z ||
        tcBase pf.tcode == Base.byte)
  | .sl (.u 16), .us (some xs) =>
    tcKind pf.tcode == .native && tcArray pf.tcode && decide (xs.length = pf.length) && xs.all (fun x => decide (x < 65536)) &&
      (tcBase pf.tcode == Base.uint16 || tcBase pf.tcode == Base.uint16z)
  | .sl (.u 32), .us (some xs) =>
    tcKind pf.tcode == .native && tcArray pf.tcode && decide (xs.length = pf.length) &&
      xs.all (fun x => decide (x < 4294967296)) && (tcBase pf.tcode == Base.uint32 || tcBase pf.tcode == Base.uint32z)
  | .time, .t secs 0 0 => tcKind pf.tcode == .timeUTC && decide (0 ≤ secs ∧ secs < 4294967295)
  | .lat, .lat z => tcKind pf.tcode == .lat && decide ((-1073741824 ≤ z ∧ z < 1073741824) ∨ z = 2147483647)
  | .lng, .lng z => tcKind pf.tcode == .lng && decide (-2147483648 ≤ z ∧ z < 2147483648)
  | _, _ => false

theorem valRT_sound (P : Profile) (hwf : ProfileWF P = true) (dm : DefMsg) (pf : PField) (k : SlotKind) (v : Val)
    (hgf : P.getField dm.global pf.num = some pf) (h : valRT pf k v = true) : FieldRT P dm pf k v := by
  unfold valRT at h
  split at h
  · simp only [Bool.and_eq_true, beq_iff_eq, Bool.not_eq_true', decide_eq_true_eq, Bool.or_eq_true] at h
    obtain ⟨⟨⟨h1, h2⟩, h3⟩, h4⟩ := h
    exact fieldRT_unsigned P hwf dm pf 1 _ hgf h1 h2 (Or.inl ⟨rfl, by
      rcases h4 with ((h | h) | h) | h
      · exact Or.inl h
      · exact Or.inr (Or.inl h)
      · exact Or.inr (Or.inr (Or.inl h))
      · exact Or.inr (Or.inr (Or.inr h))⟩) (by omega)
  · simp only [Bool.and_eq_true, beq_iff_eq, Bool.not_eq_true', decide_eq_true_eq, Bool.or_eq_true] at h
    obtain ⟨⟨⟨h1, h2⟩, h3⟩, h4⟩ := h
    exact fieldRT_unsigned P hwf dm pf 2 _ hgf h1 h2 (Or.inr (Or.inl ⟨rfl, h4⟩)) (by omega)
  · simp only [Bool.and_eq_true, beq_iff_eq, Bool.not_eq_true', decide_eq_true_eq, Bool.or_eq_true] at h
    obtain ⟨⟨⟨h1, h2⟩, h3⟩, h4⟩ := h
    exact fieldRT_unsigned P hwf dm pf 4 _ hgf h1 h2 (Or.inr (Or.inr ⟨rfl, h4⟩)) (by omega)
  · simp only [Bool.and_eq_true, beq_iff_eq, Bool.not_eq_true', decide_eq_true_eq] at h
    obtain ⟨⟨⟨h1, h2⟩, h3⟩, h4⟩ := h
    exact fieldRT_signed P hwf dm pf 1 _ hgf h1 h2 (Or.inl ⟨rfl, h4⟩) (by omega) (by omega)
  · simp only [Bool.and_eq_true, beq_iff_eq, Bool.not_eq_true', decide_eq_true_eq] at h
    obtain ⟨⟨⟨h1, h2⟩, h3⟩, h4⟩ := h
    exact fieldRT_signed P hwf dm pf 2 _ hgf h1 h2 (Or.inr (Or.inl ⟨rfl, h4⟩)) (by omega) (by omega)
  · simp only [Bool.and_eq_true, beq_iff_eq, Bool.not_eq_true', decide_eq_true_eq] at h
    obtain ⟨⟨⟨h1, h2⟩, h3⟩, h4⟩ := h
    exact fieldRT_signed P hwf dm pf 4 _ hgf h1 h2 (Or.inr (Or.inr ⟨rfl, h4⟩)) (by omega) (by omega)
  · rename_i b
    simp only [Bool.and_eq_true, beq_iff_eq, Bool.not_eq_true', decide_eq_true_eq, List.all_eq_true, bne_iff_ne,
      ne_eq] at h
    obtain ⟨⟨⟨⟨⟨⟨h1, h2⟩, h3⟩, h4⟩, h5⟩, h6⟩, h7⟩ := h
    exact fieldRT_string P hwf dm pf b hgf h1 h2 h3 (by intro e; rw [e] at h4; cases h4) h5 h6 h7
  · simp only [Bool.and_eq_true, beq_iff_eq, decide_eq_true_eq, Bool.or_eq_true, List.all_eq_true] at h
    obtain ⟨⟨⟨⟨h1, h2⟩, h3⟩, h4⟩, h5⟩ := h
    rcases h5 with ((h | h) | h) | h
    · exact fieldRT_unsigned_array P hwf dm pf 1 _ hgf h1 h2 (Or.inl ⟨rfl, Or.inl h⟩) h3 (fun x hx => by have := h4 x hx; omega)
    · exact fieldRT_unsigned_array P hwf dm pf 1 _ hgf h1 h2 (Or.inl ⟨rfl, Or.inr (Or.inl h)⟩) h3
        (fun x hx => by have := h4 x hx; omega)
    · exact fieldRT_unsigned_array P hwf dm pf 1 _ hgf h1 h2 (Or.inl ⟨rfl, Or.inr (Or.inr h)⟩) h3
        (fun x hx => by have := h4 x hx; omega)
    · exact fieldRT_byte_array P hwf dm pf _ hgf h1 h2 h h3 (fun x hx => h4 x hx)
  · simp only [Bool.and_eq_true, beq_iff_eq, decide_eq_true_eq, Bool.or_eq_true, List.all_eq_true] at h
    obtain ⟨⟨⟨⟨h1, h2⟩, h3⟩, h4⟩, h5⟩ := h
    exact fieldRT_unsigned_array P hwf dm pf 2 _ hgf h1 h2 (Or.inr (Or.inl ⟨rfl, h5⟩)) h3
      (fun x hx => by have := h4 x hx; omega)
  · simp only [Bool.and_eq_true, beq_iff_eq, decide_eq_true_eq, Bool.or_eq_true, List.all_eq_true] at h
    obtain ⟨⟨⟨⟨h1, h2⟩, h3⟩, h4⟩, h5⟩ := h
    exact fieldRT_unsigned_array P hwf dm pf 4 _ hgf h1 h2 (Or.inr (Or.inr ⟨rfl, h5⟩)) h3
      (fun x hx => by have := h4 x hx; omega)
  · rename_i secs
    simp only [Bool.and_eq_true, beq_iff_eq, decide_eq_true_eq] at h
    obtain ⟨h1, h2, h3⟩ := h
    have e : secs = ((secs.toNat : Nat) : Int) := (Int.toNat_of_nonneg (by omega)).symm
    rw [e]
    exact fieldRT_time P hwf dm pf secs.toNat hgf h1 (by omega)
  · simp only [Bool.and_eq_true, beq_iff_eq, decide_eq_true_eq] at h
    exact fieldRT_lat P hwf dm pf _ hgf h.1 h.2
  · simp only [Bool.and_eq_true, beq_iff_eq, decide_eq_true_eq] at h
    exact fieldRT_lng P hwf dm pf _ hgf h.1 h.2.1 h.2.2
  · cases h

/-- arrays of unsigned elements of any length up to the profile's, and nil arrays (written as
    fillers): read back padded with invalid values -/
def arrRT (pf : PField) (k : SlotKind) (v : Val) : Bool :=
  match k, v with
  | .sl (.u 8), .us xs =>
    tcKind pf.tcode == .native && tcArray pf.tcode && decide ((xs.getD []).length ≤ pf.length) &&
      (xs.getD []).all (fun x => decide (x < 256)) &&
      (tcBase pf.tcode == Base.enum || tcBase pf.tcode == Base.uint8 || tcBase pf.tcode == Base.uint8z ||
        tcBase pf.tcode == Base.byte)
  | .sl (.u 16), .us xs =>
    tcKind pf.tcode == .native && tcArray pf.tcode && decide ((xs.getD []).length ≤ pf.length) &&
      (xs.getD []).all (fun x => decide (x < 65536)) &&
      (tcBase pf.tcode == Base.uint16 || tcBase pf.tcode == Base.uint16z)
  | .sl (.u 32), .us xs =>
    tcKind pf.tcode == .native && tcArray pf.tcode && decide ((xs.getD []).length ≤ pf.length) &&
      (xs.getD []).all (fun x => decide (x < 4294967296)) &&
      (tcBase pf.tcode == Base.uint32 || tcBase pf.tcode == Base.uint32z)
  | .sl (.i 8), .is zs =>
    tcKind pf.tcode == .native && tcArray pf.tcode && decide ((zs.getD []).length ≤ pf.length) &&
      (zs.getD []).all (fun z => decide (-128 ≤ z ∧ z < 128)) && tcBase pf.tcode == Base.sint8
  | .sl (.i 16), .is zs =>
    tcKind pf.tcode == .native && tcArray pf.tcode && decide ((zs.getD []).length ≤ pf.length) &&
      (zs.getD []).all (fun z => decide (-32768 ≤ z ∧ z < 32768)) && tcBase pf.tcode == Base.sint16
  | .sl (.i 32), .is zs =>
    tcKind pf.tcode == .native && tcArray pf.tcode && decide ((zs.getD []).length ≤ pf.length) &&
      (zs.getD []).all (fun z => decide (-2147483648 ≤ z ∧ z < 2147483648)) && tcBase pf.tcode == Base.sint32
  | _, _ => false

theorem arrRT_sound (P : Profile) (hwf : ProfileWF P = true) (dm : DefMsg) (pf : PField) (k : SlotKind) (v : Val)
    (hgf : P.getField dm.global pf.num = some pf) (h : arrRT pf k v = true) (inv : Val) :
    FieldRTG P dm pf k v inv (padVal pf v) := by
  unfold arrRT at h
  split at h
  · simp only [Bool.and_eq_true, beq_iff_eq, decide_eq_true_eq, Bool.or_eq_true, List.all_eq_true] at h
    obtain ⟨⟨⟨⟨h1, h2⟩, h3⟩, h4⟩, h5⟩ := h
    rcases h5 with ((h | h) | h) | h
    · exact fieldRTG_unsigned_array P hwf dm pf 1 _ hgf h1 h2 (Or.inl ⟨rfl, Or.inl h⟩) h3 (fun x hx => by have := h4 x hx; omega) inv
    · exact fieldRTG_unsigned_array P hwf dm pf 1 _ hgf h1 h2 (Or.inl ⟨rfl, Or.inr (Or.inl h)⟩) h3
        (fun x hx => by have := h4 x hx; omega) inv
    · exact fieldRTG_unsigned_array P hwf dm pf 1 _ hgf h1 h2 (Or.inl ⟨rfl, Or.inr (Or.inr h)⟩) h3
        (fun x hx => by have := h4 x hx; omega) inv
    · exact fieldRTG_byte_array P hwf dm pf _ hgf h1 h2 h h3 (fun x hx => h4 x hx) inv
  · simp only [Bool.and_eq_true, beq_iff_eq, decide_eq_true_eq, Bool.or_eq_true, List.all_eq_true] at h
    obtain ⟨⟨⟨⟨h1, h2⟩, h3⟩, h4⟩, h5⟩ := h
    exact fieldRTG_unsigned_array P hwf dm pf 2 _ hgf h1 h2 (Or.inr (Or.inl ⟨rfl, h5⟩)) h3
      (fun x hx => by have := h4 x hx; omega) inv
  · simp only [Bool.and_eq_true, beq_iff_eq, decide_eq_true_eq, Bool.or_eq_true, List.all_eq_true] at h
    obtain ⟨⟨⟨⟨h1, h2⟩, h3⟩, h4⟩, h5⟩ := h
    exact fieldRTG_unsigned_array P hwf dm pf 4 _ hgf h1 h2 (Or.inr (Or.inr ⟨rfl, h5⟩)) h3
      (fun x hx => by have := h4 x hx; omega) inv
  · simp only [Bool.and_eq_true, beq_iff_eq, decide_eq_true_eq, List.all_eq_true] at h
    obtain ⟨⟨⟨⟨h1, h2⟩, h3⟩, h4⟩, h5⟩ := h
    exact fieldRTG_signed_array P hwf dm pf 1 _ hgf h1 h2 (Or.inl ⟨rfl, h5⟩) h3
      (fun z hz => by have := h4 z hz; omega) inv
  · simp only [Bool.and_eq_true, beq_iff_eq, decide_eq_true_eq, List.all_eq_true] at h
    obtain ⟨⟨⟨⟨h1, h2⟩, h3⟩, h4⟩, h5⟩ := h
    exact fieldRTG_signed_array P hwf dm pf 2 _ hgf h1 h2 (Or.inr (Or.inl ⟨rfl, h5⟩)) h3
      (fun z hz => by have := h4 z hz; omega) inv
  · simp only [Bool.and_eq_true, beq_iff_eq, decide_eq_true_eq, List.all_eq_true] at h
    obtain ⟨⟨⟨⟨h1, h2⟩, h3⟩, h4⟩, h5⟩ := h
    exact fieldRTG_signed_array P hwf dm pf 4 _ hgf h1 h2 (Or.inr (Or.inr ⟨rfl, h5⟩)) h3
      (fun z hz => by have := h4 z hz; omega) inv
  · cases h

/-- on the values of `valRT` padding changes nothing: scalars are not arrays, and the arrays of
    `valRT` have the profile length -/
theorem valRT_pad (pf : PField) (k : SlotKind) (v : Val) (h : valRT pf k v = true) : padVal pf v = v := by
  cases v with
  | us xs =>
    cases xs with
    | none => unfold valRT at h; split at h <;> first | cases h | (rename_i e; cases e)
    | some ys =>
      apply padVal_full
      unfold valRT at h
      split at h
      all_goals first
        | cases h
        | (rename_i e; cases e; simp only [Bool.and_eq_true, decide_eq_true_eq] at h; omega)
        | (rename_i e; cases e; done)
  | is xs => unfold valRT at h; split at h <;> first | cases h | (rename_i e; cases e; done)
  | _ => unfold padVal; split <;> rfl

/-- the empty string in a string field: what a group definition writes for a member that leaves the
    field unset -/
def strFillerB (pf : PField) (k : SlotKind) (v : Val) : Bool :=
  k == .sc .s && v == .s [] && tcKind pf.tcode == .native && !tcArray pf.tcode && tcBase pf.tcode == Base.string

/-- Boolean form of `MsgDom`: every field selected by `w` holds a value in the scalar domain — or,
    if the message leaves it invalid, is a string field holding the empty string — and every field
    left invalid holds the constructor's invalid value -/
def msgDomB (pm : PMsg) (m : Msg) (w : PField → Bool) : Bool :=
  (pm.fields.all fun pf => !w pf ||
    match pm.layout[pf.sindex]?, m.vals[pf.sindex]? with
    | some k, some v => valRT pf k v || arrRT pf k v || (isInvalidVal pm pf.sindex v && strFillerB pf k v)
    | _, _ => true) &&
  (List.range m.vals.length).all fun i =>
    match m.vals[i]? with
    | some v => !isInvalidVal pm i v || pm.invalid[i]? == some v
    | none => true

theorem msgDomB_sound (P : Profile) (hwf : ProfileWF P = true) (arch : Endian) (pm : PMsg) (m : Msg)
    (hpm : P.msg? m.num = some pm) (hkn : P.known m.num = true) (w : PField → Bool) (W : PField → Prop)
    (hw : ∀ pf, W pf → w pf = true) (h : msgDomB pm m w = true) : MsgDom P arch pm m W := by
  unfold msgDomB at h
  simp only [Bool.and_eq_true, List.all_eq_true, Bool.or_eq_true, Bool.not_eq_true', List.mem_range] at h
  obtain ⟨h1, h2⟩ := h
  have hmw := msg?_wf P hwf m.num pm hpm
  have key : ∀ pf ∈ pm.fields, W pf → ∀ k v, pm.layout[pf.sindex]? = some k → m.vals[pf.sindex]? = some v →
      (valRT pf k v = true ∨ arrRT pf k v = true) ∨ (isInvalidVal pm pf.sindex v = true ∧ strFillerB pf k v = true) := by
    intro pf hp hW k v hk hv
    have := h1 pf hp
    rw [hw pf hW, hk, hv] at this
    simpa using this
  refine ⟨?_, ?_, ?_⟩
  · intro pf hp hW k v hk hv hiv fs
    have hgf := getField_of_mem P m.num pm hpm hmw pf hp hkn
    rcases key pf hp hW k v hk hv with (h | h) | h
    · rw [valRT_pad pf k v h]
      exact (valRT_sound P hwf (defOf arch m.num fs) pf k v hgf h).toG _
    · exact arrRT_sound P hwf (defOf arch m.num fs) pf k v hgf h _
    · rw [hiv] at h; cases h.1
  · intro pf hp hW k v hk hv hiv fs
    have hgf := getField_of_mem P m.num pm hpm hmw pf hp hkn
    rcases key pf hp hW k v hk hv with (h | h) | h
    · rw [valRT_pad pf k v h]
      exact (valRT_sound P hwf (defOf arch m.num fs) pf k v hgf h).toG v
    · exact arrRT_sound P hwf (defOf arch m.num fs) pf k v hgf h v
    · have hf := h.2
      unfold strFillerB at hf
      simp only [Bool.and_eq_true, beq_iff_eq, Bool.not_eq_true'] at hf
      obtain ⟨⟨⟨⟨e1, e2⟩, e3⟩, e4⟩, e5⟩ := hf
      subst e1 e2
      rw [padVal_scalar pf _ e4]
      exact (fieldRTI_string_empty P hwf (defOf arch m.num fs) pf hgf e3 e4 e5).toG
  · intro i v hv hiv
    have hi : i < m.vals.length := (List.getElem?_eq_some_iff.mp hv).1
    have := h2 i hi
    rw [hv] at this
    simpa [hiv] using this

def validInB (pm : PMsg) (m : Msg) (pf : PField) : Bool := !isInvalidVal pm pf.sindex (m.vals.getD pf.sindex (.u 0))

def oneDomB (P : Profile) (m : Msg) : Bool :=
  P.known m.num && match P.msg? m.num with
    | some pm => msgDomB pm m (validInB pm m)
    | none => false

theorem oneDomB_sound (P : Profile) (hwf : ProfileWF P = true) (arch : Endian) (m : Msg) (h : oneDomB P m = true) :
    OneDom P arch m := by
  unfold oneDomB at h
  simp only [Bool.and_eq_true] at h
  obtain ⟨hk, h2⟩ := h
  refine ⟨hk, fun pm hpm => ?_⟩
  rw [hpm] at h2
  exact msgDomB_sound P hwf arch pm m hpm hk _ _ (fun pf hW => by unfold validIn at hW; unfold validInB; rw [hW]; rfl) h2

def slotDomB (P : Profile) (ms : List Msg) : Bool :=
  match ms with
  | [] => true
  | m0 :: _ =>
    P.known m0.num && ms.all (fun m => m.num == m0.num) &&
    match P.msg? m0.num with
    | some pm => ms.all fun m => msgDomB pm m fun pf => ms.any fun m' => validInB pm m' pf
    | none => false

theorem slotDomB_sound (P : Profile) (hwf : ProfileWF P = true) (arch : Endian) (ms : List Msg)
    (h : slotDomB P ms = true) : SlotDom P arch ms := by
  intro m0 rest hms
  subst hms
  unfold slotDomB at h
  simp only [Bool.and_eq_true, List.all_eq_true, beq_iff_eq] at h
  obtain ⟨⟨hk, hnum⟩, h3⟩ := h
  refine ⟨hk, hnum, fun pm hpm m hm => ?_⟩
  rw [hpm] at h3
  simp only [List.all_eq_true] at h3
  have hmn : m.num = m0.num := hnum m hm
  exact msgDomB_sound P hwf arch pm m (by rw [hmn]; exact hpm) (by rw [hmn]; exact hk) _ _
    (fun pf hW => by
      obtain ⟨m', hm', hv⟩ := hW
      simp only [List.any_eq_true]
      exact ⟨m', hm', by unfold validIn at hv; unfold validInB; rw [hv]; rfl⟩) (h3 m hm)

/-- Boolean form of `FileRT` -/
def fileRTB (P : Profile) (f : FileSt) : Bool :=
  decide (f.hdr.size = headerSizeNoCRC ∨ f.hdr.size = headerSizeCRC) && decide (f.hdr.dtype = fitTag) &&
  decide (f.hdr.proto < 256 ∧ f.hdr.proto / 16 ≤ protoMajorMax) && decide (f.fileId.num = mnFileId) &&
  oneDomB P f.fileId &&
  (match f.creator with | some m => oneDomB P m | none => true) &&
  (match f.tscorr with | some m => oneDomB P m | none => true) &&
  f.slots.all (slotDomB P)

theorem fileRTB_sound (P : Profile) (hwf : ProfileWF P = true) (arch : Endian) (f : FileSt) (h : fileRTB P f = true) :
    FileRT P arch f := by
  unfold fileRTB at h
  simp only [Bool.and_eq_true, decide_eq_true_eq, List.all_eq_true] at h
  obtain ⟨⟨⟨⟨⟨⟨⟨h1, h2⟩, h3⟩, h4⟩, h5⟩, h6⟩, h7⟩, h8⟩ := h
  refine ⟨h1, h2, h3, h4, oneDomB_sound P hwf arch _ h5, ?_, ?_, fun ms hms => slotDomB_sound P hwf arch ms (h8 ms hms)⟩
  · intro m hm
    rw [hm] at h6
    exact oneDomB_sound P hwf arch m h6
  · intro m hm
    rw [hm] at h7
    exact oneDomB_sound P hwf arch m h7

/-- Boolean form of `FileShape` for the container the File's type selects -/
def fileShapeB (c : Container) (f : FileSt) : Bool :=
  (match f.creator with | some m => m.num == mnFileCreator | none => true) &&
  (match f.tscorr with | some m => m.num == mnTimestampCorrelation | none => true) &&
  f.slots.length == c.slots.length &&
  (c.slots.zip f.slots).all fun z => z.2.all fun m => m.num == z.1.msg

theorem fileShapeB_sound (c : Container) (f : FileSt) (h : fileShapeB c f = true) : FileShape c f := by
  unfold fileShapeB at h
  simp only [Bool.and_eq_true, beq_iff_eq, List.all_eq_true] at h
  obtain ⟨⟨⟨h1, h2⟩, h3⟩, h4⟩ := h
  refine ⟨?_, ?_, h3, h4⟩
  · intro m hm; rw [hm] at h1; simpa using h1
  · intro m hm; rw [hm] at h2; simpa using h2

/-- every container of the regenerated profile has distinct element types, none of them a message
    type that `File` keeps itself -/
theorem gen_containers_ok : ∀ c ∈ Gen.profile.containers, containerOK c = true := by decide +kernel

/-- what padding is: an array value followed by invalid values of its base type up to the profile
    length (a nil array counts as empty); any other value unchanged. This is the normal form behind
    "arrays are compared up to trailing invalid padding". -/
theorem padVal_spec (pf : PField) (v : Val) :
    padVal pf v = v ∨
    (∃ xs, v = .us xs ∧ padVal pf v = .us (some (xs.getD [] ++
      List.replicate (pf.length - (xs.getD []).length) (Base.invalidNat (tcBase pf.tcode))))) ∨
    (∃ zs, v = .is zs ∧ padVal pf v = .is (some (zs.getD [] ++
      List.replicate (pf.length - (zs.getD []).length) ((Base.invalidNat (tcBase pf.tcode) : Nat) : Int)))) := by
  unfold padVal
  split
  · cases v with
    | us xs => exact Or.inr (Or.inl ⟨xs, rfl, rfl⟩)
    | is zs => exact Or.inr (Or.inr ⟨zs, rfl, rfl⟩)
    | _ => exact Or.inl rfl
  · exact Or.inl rfl

/-- **C06, whole File (regenerated profile).** For every File with `fileRTB`, of the typed API's
    shape, that `Encode` accepts in either byte order: decoding the bytes written — followed by
    anything, through any reader, with any option set and any package state — succeeds and returns
    the same file_id, file_creator, timestamp_correlation and container, and in every slot the File's
    own messages in order — each with the array fields its record carries padded with invalid values
    to the profile length (`wireFile`, `padVal_spec`), and passed through `expandComponents` where
    its type has component fields (with the package-level accumulators threaded in file order). -/
theorem decode_encode_content (arch : Endian) (f f' : FileSt) (bs : Bytes)
    (h : encode Gen.profile arch f = .ok bs f') (hdom : fileRTB Gen.profile f = true)
    (hsmall : bs.length < 4294967296)
    (hsh : ∀ i, f.cidx = some i → fileShapeB (Gen.profile.containers.getD i default) f = true)
    (o : Opts) (g : Globals) (tail : Bytes) (stop : Stop) :
    ∃ (i : Nat) (F' : FileSt), f.cidx = some i ∧
      (decodeSpec Gen.profile o .full g (bs ++ tail) stop).1.success ∧
      (decodeSpec Gen.profile o .full g (bs ++ tail) stop).1.st.file = some F' ∧
      F'.fileId = wire1 Gen.profile f.fileId ∧ F'.creator = f.creator.map (wire1 Gen.profile) ∧
      F'.tscorr = f.tscorr.map (wire1 Gen.profile) ∧ F'.cidx = f.cidx ∧
      F'.fieldDescs = [] ∧ F'.devIds = [] ∧
      F'.slots = (expandSlots Gen.profile g (((Gen.profile.containers.getD i default).slots.zip
        (wireFile Gen.profile (Gen.profile.containers.getD i default) f).slots).map slotMsgs)).1 ∧
      (decodeSpec Gen.profile o .full g (bs ++ tail) stop).1.st.glob =
        (expandSlots Gen.profile g (((Gen.profile.containers.getD i default).slots.zip
          (wireFile Gen.profile (Gen.profile.containers.getD i default) f).slots).map slotMsgs)).2 ∧
      ((F'.hdr.size = headerSizeNoCRC ∨ F'.hdr.size = headerSizeCRC) ∧ F'.hdr.dtype = fitTag ∧ F'.hdr.proto = f.hdr.proto) :=
  Fit.decode_encode_content Gen.profile Fit.Props.C01.gen_wf gen_containers_ok arch f f' bs h
    (fileRTB_sound Gen.profile Fit.Props.C01.gen_wf arch f hdom) hsmall
    (fun i hi => fileShapeB_sound _ f (hsh i hi)) o g tail stop

/-- **C06, whole File, no component fields: `Decode (Encode f) = f` up to array padding.** -/
theorem decode_encode_identity (arch : Endian) (f f' : FileSt) (bs : Bytes)
    (h : encode Gen.profile arch f = .ok bs f') (hdom : fileRTB Gen.profile f = true)
    (hsmall : bs.length < 4294967296)
    (hsh : ∀ i, f.cidx = some i → fileShapeB (Gen.profile.containers.getD i default) f = true)
    (hone : ∀ i, f.cidx = some i → ∀ z ∈ (Gen.profile.containers.getD i default).slots.zip f.slots,
      z.1.many = false → z.2.length ≤ 1)
    (hnx : ∀ ms ∈ f.slots, ∀ m ∈ ms, expandSet.contains m.num = false)
    (o : Opts) (g : Globals) (tail : Bytes) (stop : Stop) :
    ∃ F' : FileSt,
      (decodeSpec Gen.profile o .full g (bs ++ tail) stop).1.success ∧
      (decodeSpec Gen.profile o .full g (bs ++ tail) stop).1.st.file = some F' ∧
      F'.fileId = wire1 Gen.profile f.fileId ∧ F'.creator = f.creator.map (wire1 Gen.profile) ∧
      F'.tscorr = f.tscorr.map (wire1 Gen.profile) ∧ F'.cidx = f.cidx ∧
      F'.fieldDescs = [] ∧ F'.devIds = [] ∧
      (∀ i, f.cidx = some i → F'.slots = (wireFile Gen.profile (Gen.profile.containers.getD i default) f).slots) ∧
      (decodeSpec Gen.profile o .full g (bs ++ tail) stop).1.st.glob = g ∧
      ((F'.hdr.size = headerSizeNoCRC ∨ F'.hdr.size = headerSizeCRC) ∧ F'.hdr.dtype = fitTag ∧ F'.hdr.proto = f.hdr.proto) :=
  Fit.decode_encode_identity Gen.profile Fit.Props.C01.gen_wf gen_containers_ok arch f f' bs h
    (fileRTB_sound Gen.profile Fit.Props.C01.gen_wf arch f hdom) hsmall
    (fun i hi => fileShapeB_sound _ f (hsh i hi)) hone hnx o g tail stop

/-! ### non-vacuity: a concrete File inside the domain -/

/-- a message of type `n`: the constructor's invalid values with some positions set -/
def mkMsg (n : Nat) (sets : List (Nat × Val)) : Msg :=
  match Gen.profile.msg? n with
  | some pm => ⟨n, sets.foldl (fun vs iv => setAt vs iv.1 iv.2) pm.invalid⟩
  | none => ⟨n, []⟩

/-- a settings file: two user_profile messages with different valid fields — a name in the first
    only — so the slice gets a union definition and each record carries invalid fillers (among them
    the empty string); one hrm_profile message; two device_settings messages — the first with an unsigned and a signed
    array shorter than the profile length and a full-length one, the second without either, so that both are
    written as fillers in its record -/
def exampleSettings (sz : Nat) : FileSt :=
  { hdr := { size := sz, proto := 0x20, profile := 2115, dtype := fitTag },
    fileId := mkMsg 0 [(0, .u 2), (1, .u 1), (2, .u 7), (3, .u 12345), (4, .t 1000 0 0)],
    cidx := some 1,
    slots := [[mkMsg 3 [(1, .s [65, 66]), (2, .u 1), (3, .u 30)], mkMsg 3 [(3, .u 41), (4, .u 180)]], [mkMsg 4 [(0, .u 1)]], [], [],
              [mkMsg 2 [(2, .us (some [3600])), (4, .is (some [-4])), (8, .us (some [513]))], mkMsg 2 [(0, .u 1)]]] }

/-- what comes back for `exampleSettings`: the arrays padded with invalid values -/
def exampleSettingsBack : List (List Msg) :=
  [[mkMsg 3 [(1, .s [65, 66]), (2, .u 1), (3, .u 30)], mkMsg 3 [(3, .u 41), (4, .u 180)]], [mkMsg 4 [(0, .u 1)]], [], [],
   [mkMsg 2 [(2, .us (some [3600, 4294967295])), (4, .is (some [-4, 127])), (8, .us (some [513]))],
    mkMsg 2 [(0, .u 1), (2, .us (some [4294967295, 4294967295])), (4, .is (some [127, 127])), (8, .us (some [65535]))]]]

def encodesSmall (arch : Endian) (f : FileSt) : Bool :=
  match encode Gen.profile arch f with
  | .ok bs _ => decide (bs.length < 4294967296)
  | _ => false

set_option maxRecDepth 100000 in
/-- the premises of `decode_encode_identity` are satisfiable: for this File, with a 12-byte or a
    14-byte header and in both byte orders,
    `Encode` succeeds, the File is in the domain and of the typed shape — hence `Decode` of the
    bytes, with anything after them, returns its slots with the arrays padded (`exampleSettingsBack`) -/
example (sz : Nat) (hsz : sz = 12 ∨ sz = 14) (arch : Endian) (o : Opts) (g : Globals) (tail : Bytes) (stop : Stop) :
    ∃ bs f' F', encode Gen.profile arch (exampleSettings sz) = .ok bs f' ∧
      (decodeSpec Gen.profile o .full g (bs ++ tail) stop).1.st.file = some F' ∧
      F'.fileId = (exampleSettings sz).fileId ∧ F'.slots = exampleSettingsBack := by
  have h1 : encodesSmall arch (exampleSettings sz) = true := by
    rcases hsz with rfl | rfl <;> cases arch <;> decide +kernel
  unfold encodesSmall at h1
  cases he : encode Gen.profile arch (exampleSettings sz) with
  | error => rw [he] at h1; cases h1
  | panic => rw [he] at h1; cases h1
  | ok bs f' =>
    rw [he] at h1
    simp only [decide_eq_true_eq] at h1
    have hi : ∀ i, (exampleSettings sz).cidx = some i → i = 1 := by
      intro i hi
      have : (exampleSettings sz).cidx = some 1 := rfl
      rw [this] at hi
      injection hi with hi
      exact hi.symm
    obtain ⟨F', _, hF, h3, _, _, _, _, _, h9, _, _⟩ := decode_encode_identity arch (exampleSettings sz) f' bs he (by rcases hsz with rfl | rfl <;> decide +kernel) h1
      (fun i h => by rw [hi i h]; rcases hsz with rfl | rfl <;> decide +kernel)
      (fun i h => by rw [hi i h]; rcases hsz with rfl | rfl <;> decide +kernel)
      (by rcases hsz with rfl | rfl <;> decide +kernel) o g tail stop
    have hw1 : wire1 Gen.profile (exampleSettings sz).fileId = (exampleSettings sz).fileId := by
      rcases hsz with rfl | rfl <;> decide +kernel
    have hw2 : (wireFile Gen.profile (Gen.profile.containers.getD 1 default) (exampleSettings sz)).slots = exampleSettingsBack := by
      rcases hsz with rfl | rfl <;> decide +kernel
    exact ⟨bs, f', F', rfl, hF, h3.trans hw1, (h9 1 rfl).trans hw2⟩

end Fit.Props.C06
