import FitModel.Encode
import FitModel.Items
import FitProofs.Codec
import FitProps.C02
import FitProps.C17
import FitProofs.EncodeItems
import FitProofs.MsgRoundtrip
import FitModel.Gen.Profile
/-!
  C06 — Encode then Decode returns the values that were put in.

  Per-layer theorems: for every kind of field value, what `encodeScalar`/`encodeString` write is
  read back by `parseFitField` / the time and coordinate branches as the same value.  The
  composition over whole Files (`decode (encode f) ≈ f`) is checked on every run by the
  correspondence (real Encode → real Decode, compared with the model's prediction and with the
  input under the property's equivalence); its Lean proof is not yet assembled.
-/
namespace Fit.Props.C06
open Fit Fit.Props.C02

/-- unsigned scalars of 1, 2 and 4 bytes: written with `encodeScalar`, read back unchanged -/
theorem unsigned_roundtrip (arch : Endian) (pf : PField) (w n : Nat) (fd : FieldDef)
    (hk : tcKind pf.tcode = .native) (hb : tcBase pf.tcode ≠ Base.string)
    (hw : (w = 1 ∧ (fd.btype = Base.enum ∨ fd.btype = Base.byte ∨ fd.btype = Base.uint8 ∨ fd.btype = Base.uint8z)) ∨
          (w = 2 ∧ (fd.btype = Base.uint16 ∨ fd.btype = Base.uint16z)) ∨
          (w = 4 ∧ (fd.btype = Base.uint32 ∨ fd.btype = Base.uint32z)))
    (hn : n < 256 ^ w) :
    ∃ bs, encodeScalar arch pf (.u (8 * w)) (.u n) = .ok bs ∧
      parseFitField arch fd (.sc (.u (8 * w))) bs = .ok (some (.u n)) := by
  have hsw : scWidth (.u (8 * w)) = w := by simp [scWidth]
  refine ⟨arch.enc w n, ?_, ?_⟩
  · simp [encodeScalar, hk, hb, hsw]
  · have hd : wireNat arch (arch.enc w n) = n := by
      simp only [wireNat]; rw [dec_enc]; exact Nat.mod_eq_of_lt hn
    have hl := enc_length arch w n
    rcases hw with ⟨rfl, hbt⟩ | ⟨rfl, hbt⟩ | ⟨rfl, hbt⟩
    · have := (unsigned_field_denotes arch fd 8 (arch.enc 1 n)).1 hbt hl (by omega)
      rw [hd] at this; exact this
    · have := (unsigned_field_denotes arch fd 16 (arch.enc 2 n)).2.1 hbt hl (by omega)
      rw [hd] at this; exact this
    · have := (unsigned_field_denotes arch fd 32 (arch.enc 4 n)).2.2 hbt hl (by omega)
      rw [hd] at this; exact this

/-- signed scalars: two's complement out, two's complement back -/
theorem signed_roundtrip (arch : Endian) (pf : PField) (w : Nat) (z : Int) (fd : FieldDef)
    (hk : tcKind pf.tcode = .native) (hb : tcBase pf.tcode ≠ Base.string)
    (hw : (w = 1 ∧ fd.btype = Base.sint8) ∨ (w = 2 ∧ fd.btype = Base.sint16) ∨ (w = 4 ∧ fd.btype = Base.sint32))
    (hlo : -(2 ^ (8 * w - 1) : Int) ≤ z) (hhi : z < (2 ^ (8 * w - 1) : Int)) :
    ∃ bs, encodeScalar arch pf (.i (8 * w)) (.i z) = .ok bs ∧
      parseFitField arch fd (.sc (.i (8 * w))) bs = .ok (some (.i z)) := by
  have hsw : scWidth (.i (8 * w)) = w := by simp [scWidth]
  refine ⟨arch.enc w (toUnsigned (8 * w) z), ?_, ?_⟩
  · simp [encodeScalar, hk, hb, hsw]
  · have hl := enc_length arch w (toUnsigned (8 * w) z)
    have key : ∀ bits, bits = 8 ∨ bits = 16 ∨ bits = 32 → -(2 ^ (bits - 1) : Int) ≤ z → z < (2 ^ (bits - 1) : Int) →
        toSigned bits (toUnsigned bits z % 2 ^ bits) = z := by
      intro bits hb h1 h2
      rcases hb with rfl | rfl | rfl <;>
      · simp only [toSigned, toUnsigned, Nat.reducePow, Nat.reduceSub, Int.reducePow] at *
        apply ite_eq_of <;> intro h <;> omega
    rcases hw with ⟨rfl, hbt⟩ | ⟨rfl, hbt⟩ | ⟨rfl, hbt⟩
    · have := (signed_field_denotes arch fd 8 (arch.enc 1 (toUnsigned 8 z)) (Or.inl rfl)).1 hbt hl (by omega)
      simp only [wireNat, dec_enc] at this
      rw [show (256 : Nat) ^ 1 = 2 ^ 8 by decide, key 8 (Or.inl rfl) hlo hhi] at this
      exact this
    · have := (signed_field_denotes arch fd 16 (arch.enc 2 (toUnsigned 16 z)) (Or.inr (Or.inl rfl))).2.1 hbt hl (by omega)
      simp only [wireNat, dec_enc] at this
      rw [show (256 : Nat) ^ 2 = 2 ^ 16 by decide, key 16 (Or.inr (Or.inl rfl)) hlo hhi] at this
      exact this
    · have := (signed_field_denotes arch fd 32 (arch.enc 4 (toUnsigned 32 z)) (Or.inr (Or.inr (Or.inl rfl)))).2.2 hbt hl (by omega)
      simp only [wireNat, dec_enc] at this
      rw [show (256 : Nat) ^ 4 = 2 ^ 32 by decide, key 32 (Or.inr (Or.inr rfl)) hlo hhi] at this
      exact this

/-- strings: valid UTF-8 without NUL that fits (shorter than the profile length) comes back as is -/
theorem string_roundtrip (arch : Endian) (fd : FieldDef) (b : Bytes) (n : Nat)
    (hbt : fd.btype = Base.string) (hne : b ≠ []) (hfit : b.length < n) (hnul : ∀ x ∈ b, x ≠ 0)
    (hutf : utf8Valid (b ++ List.replicate (n - b.length) 0) = true) :
    ∃ bs, encodeString b n = .ok bs ∧ parseFitField arch fd (.sc .s) bs = .ok (some (.s b)) := by
  have hmin : min b.length (n - 1) = b.length := by omega
  refine ⟨b ++ List.replicate (n - b.length) 0, ?_, ?_⟩
  · unfold encodeString
    have : n ≠ 0 := by omega
    simp [this, hmin, hutf]
  · rw [string_field_denotes arch fd _ hbt]
    have htw : (b ++ List.replicate (n - b.length) 0).takeWhile (· != 0) = b := by
      rw [List.takeWhile_append_of_pos (by intro x hx; simpa using hnul x hx)]
      have : (List.replicate (n - b.length) (0 : UInt8)).takeWhile (· != 0) = [] := by
        cases hh : n - b.length with
        | zero => simp
        | succ k => simp [List.replicate_succ]
      rw [this, List.append_nil]
    rw [htw]
    cases b with
    | nil => exact absurd rfl hne
    | cons _ _ => simp

/-- date_time values: whole seconds in range come back unchanged -/
theorem time_value_roundtrip (arch : Endian) (pf : PField) (ts : TsRef) (secs : Nat)
    (hk : tcKind pf.tcode = .timeUTC) (h1 : 0 < secs) (h2 : secs < 4294967295) :
    ∃ bs, encodeScalar arch pf (.u 32) (.t secs 0 0) = .ok bs ∧
      (parseTimeStamp ts pf (arch.dec bs)).1 = some (.t secs 0 0) := by
  refine ⟨arch.enc 4 (LatLng.encodeTime secs), by simp [encodeScalar, hk], ?_⟩
  have he : LatLng.encodeTime (secs : Int) = secs := (Props.C17.time_bijection secs (by omega)).1
  rw [he, dec_enc, Nat.mod_eq_of_lt (by omega : secs < 256 ^ 4)]
  exact (Props.C12_datetime ts pf secs hk (by omega))
where
  Props.C12_datetime (ts : TsRef) (pf : PField) (v : Nat) (hk : tcKind pf.tcode = .timeUTC) (hv : v ≠ 0xFFFFFFFF) :
      (parseTimeStamp ts pf v).1 = some (.t v 0 0) := by
    unfold parseTimeStamp; simp [hv, hk]

/-! ### one field through the real encoder and decoder functions -/

/-- Go slot of an unsigned base type of `w` bytes -/
theorem unsigned_slot_width (b w : Nat)
    (hw : (w = 1 ∧ (b = Base.enum ∨ b = Base.byte ∨ b = Base.uint8 ∨ b = Base.uint8z)) ∨
          (w = 2 ∧ (b = Base.uint16 ∨ b = Base.uint16z)) ∨
          (w = 4 ∧ (b = Base.uint32 ∨ b = Base.uint32z))) :
    scOfBase b = some (.u (8 * w)) ∧ b ≠ Base.string ∧ Base.size b = w := by
  rcases hw with ⟨rfl, h | h | h | h⟩ | ⟨rfl, h | h⟩ | ⟨rfl, h | h⟩ <;> subst h <;> decide

/-- a native scalar field through the real functions, given the value-level round trip -/
theorem native_scalar_field (P : Profile) (hwf : ProfileWF P = true) (dm : DefMsg) (pf : PField)
    (msg : Msg) (ts : TsRef) (sck : Sc) (v : Val) (bs : Bytes)
    (hgf : P.getField dm.global pf.num = some pf)
    (hnat : tcKind pf.tcode = .native) (harr : tcArray pf.tcode = false)
    (hsc : scOfBase (tcBase pf.tcode) = some sck)
    (he : encodeScalar dm.arch pf sck v = .ok bs)
    (hp : parseFitField dm.arch (fdOf pf) (.sc sck) bs = .ok (some v)) :
    writeField dm.arch pf (.sc sck) v = .ok bs ∧ bs.length = (fdOf pf).size ∧
      applyField P dm true (fdOf pf) bs (some msg) ts =
        .ok (some { msg with vals := setAt msg.vals pf.sindex v }) ts := by
  obtain ⟨pm, hpm, hfw⟩ := getField_wf P hwf _ _ _ hgf
  have facts := fieldWF_facts pm pf hfw
  obtain ⟨k, hl, hslot⟩ := facts.slot
  have hk : k = .sc sck := by
    unfold slotOfType at hslot
    rw [hnat] at hslot
    simp only [hsc, harr, Bool.false_eq_true, ↓reduceIte, Option.some.injEq] at hslot
    exact hslot.symm
  subst hk
  have hwf' : writeField dm.arch pf (.sc sck) v = .ok bs := by
    unfold writeField
    simp only [harr, Bool.not_false, ↓reduceIte]
    exact he
  have hlen := writeField_length dm.arch pm pf _ _ bs facts hslot hwf'
  refine ⟨hwf', hlen, ?_⟩
  unfold applyField
  simp only [fdOf, hgf, hpm, hl, hnat, harr]
  simp only [Bool.not_true, Bool.false_eq_true, ↓reduceIte, Bool.not_false]
  have hnn2 : ¬ (tcBase pf.tcode ≠ Base.string ∧ True ∧ Kind.native ≠ Kind.native) := fun h => h.2.2 rfl
  rw [if_neg hnn2]
  have htake : bs.take (szOf pf) = bs := by rw [← hlen]; exact List.take_length
  rw [htake]
  have hp' : parseFitField dm.arch ⟨pf.num, szOf pf, tcBase pf.tcode⟩ (.sc sck) bs = .ok (some v) := hp
  rw [hp']

/-- **An unsigned scalar field, end to end**: `writeField` emits bytes of the declared size, and
    `applyField` — run with the definition the encoder writes for that field — stores exactly the
    value that was encoded, touching nothing else and leaving the timestamp reference alone. -/
theorem unsigned_field_roundtrip (P : Profile) (hwf : ProfileWF P = true) (dm : DefMsg) (pf : PField)
    (msg : Msg) (ts : TsRef) (w n : Nat)
    (hgf : P.getField dm.global pf.num = some pf)
    (hnat : tcKind pf.tcode = .native) (harr : tcArray pf.tcode = false)
    (hw : (w = 1 ∧ (tcBase pf.tcode = Base.enum ∨ tcBase pf.tcode = Base.byte ∨ tcBase pf.tcode = Base.uint8 ∨
              tcBase pf.tcode = Base.uint8z)) ∨
          (w = 2 ∧ (tcBase pf.tcode = Base.uint16 ∨ tcBase pf.tcode = Base.uint16z)) ∨
          (w = 4 ∧ (tcBase pf.tcode = Base.uint32 ∨ tcBase pf.tcode = Base.uint32z)))
    (hn : n < 256 ^ w) :
    ∃ part, writeField dm.arch pf (.sc (.u (8 * w))) (.u n) = .ok part ∧ part.length = (fdOf pf).size ∧
      applyField P dm true (fdOf pf) part (some msg) ts =
        .ok (some { msg with vals := setAt msg.vals pf.sindex (.u n) }) ts := by
  obtain ⟨hsc, hns, hsz⟩ := unsigned_slot_width _ w hw
  obtain ⟨bs, he, hp⟩ := unsigned_roundtrip dm.arch pf w n (fdOf pf) hnat hns hw hn
  exact ⟨bs, native_scalar_field P hwf dm pf msg ts _ _ bs hgf hnat harr hsc he hp⟩

theorem signed_slot_width (b w : Nat)
    (hw : (w = 1 ∧ b = Base.sint8) ∨ (w = 2 ∧ b = Base.sint16) ∨ (w = 4 ∧ b = Base.sint32)) :
    scOfBase b = some (.i (8 * w)) ∧ b ≠ Base.string := by
  rcases hw with ⟨rfl, h⟩ | ⟨rfl, h⟩ | ⟨rfl, h⟩ <;> subst h <;> decide

/-- **A signed scalar field, end to end.** -/
theorem signed_field_roundtrip (P : Profile) (hwf : ProfileWF P = true) (dm : DefMsg) (pf : PField)
    (msg : Msg) (ts : TsRef) (w : Nat) (z : Int)
    (hgf : P.getField dm.global pf.num = some pf)
    (hnat : tcKind pf.tcode = .native) (harr : tcArray pf.tcode = false)
    (hw : (w = 1 ∧ tcBase pf.tcode = Base.sint8) ∨ (w = 2 ∧ tcBase pf.tcode = Base.sint16) ∨
          (w = 4 ∧ tcBase pf.tcode = Base.sint32))
    (hlo : -(2 ^ (8 * w - 1) : Int) ≤ z) (hhi : z < (2 ^ (8 * w - 1) : Int)) :
    ∃ part, writeField dm.arch pf (.sc (.i (8 * w))) (.i z) = .ok part ∧ part.length = (fdOf pf).size ∧
      applyField P dm true (fdOf pf) part (some msg) ts =
        .ok (some { msg with vals := setAt msg.vals pf.sindex (.i z) }) ts := by
  obtain ⟨hsc, hns⟩ := signed_slot_width _ w hw
  obtain ⟨bs, he, hp⟩ := signed_roundtrip dm.arch pf w z (fdOf pf) hnat hns hw hlo hhi
  exact ⟨bs, native_scalar_field P hwf dm pf msg ts _ _ bs hgf hnat harr hsc he hp⟩

/-- **A string field, end to end**: valid UTF-8 without NUL, shorter than the profile's length. -/
theorem string_field_roundtrip (P : Profile) (hwf : ProfileWF P = true) (dm : DefMsg) (pf : PField)
    (msg : Msg) (ts : TsRef) (b : Bytes)
    (hgf : P.getField dm.global pf.num = some pf)
    (hnat : tcKind pf.tcode = .native) (harr : tcArray pf.tcode = false)
    (hstr : tcBase pf.tcode = Base.string)
    (hne : b ≠ []) (hfit : b.length < pf.length) (hnul : ∀ x ∈ b, x ≠ 0)
    (hutf : utf8Valid (b ++ List.replicate (pf.length - b.length) 0) = true) :
    ∃ part, writeField dm.arch pf (.sc .s) (.s b) = .ok part ∧ part.length = (fdOf pf).size ∧
      applyField P dm true (fdOf pf) part (some msg) ts =
        .ok (some { msg with vals := setAt msg.vals pf.sindex (.s b) }) ts := by
  obtain ⟨bs, he, hp⟩ := string_roundtrip dm.arch (fdOf pf) b pf.length hstr hne hfit hnul hutf
  have hsc : scOfBase (tcBase pf.tcode) = some .s := by rw [hstr]; decide
  have he' : encodeScalar dm.arch pf .s (.s b) = .ok bs := by
    unfold encodeScalar
    simp only [hnat, hstr, ↓reduceIte, he]
  exact ⟨bs, native_scalar_field P hwf dm pf msg ts _ _ bs hgf hnat harr hsc he' hp⟩

/-- **A date_time field, end to end**: whole seconds in range come back unchanged; the timestamp
    reference is re-based exactly when the field is number 253. -/
theorem time_field_roundtrip (P : Profile) (hwf : ProfileWF P = true) (dm : DefMsg) (pf : PField)
    (msg : Msg) (ts : TsRef) (secs : Nat)
    (hgf : P.getField dm.global pf.num = some pf)
    (hk : tcKind pf.tcode = .timeUTC) (h1 : 0 < secs) (h2 : secs < 4294967295) :
    ∃ part, writeField dm.arch pf .time (.t secs 0 0) = .ok part ∧ part.length = (fdOf pf).size ∧
      applyField P dm true (fdOf pf) part (some msg) ts =
        .ok (some { msg with vals := setAt msg.vals pf.sindex (.t secs 0 0) })
          (if pf.num = fieldNumTimeStamp then { timestamp := secs, lastOff := secs % 32 } else ts) := by
  obtain ⟨pm, hpm, hfw⟩ := getField_wf P hwf _ _ _ hgf
  have facts := fieldWF_facts pm pf hfw
  obtain ⟨k, hl, hslot⟩ := facts.slot
  have hkind := facts.kind
  rw [hk] at hkind
  obtain ⟨hpb, harr⟩ := hkind
  have hkt : k = .time := by
    unfold slotOfType at hslot
    rw [hk] at hslot
    simp only [harr, Bool.false_eq_true, ↓reduceIte, Option.some.injEq] at hslot
    exact hslot.symm
  subst hkt
  obtain ⟨bs, he, hp⟩ := time_value_roundtrip dm.arch pf ts secs hk h1 h2
  have hwf' : writeField dm.arch pf .time (.t secs 0 0) = .ok bs := by
    unfold writeField
    simp only [harr, Bool.not_false, ↓reduceIte]
    exact he
  have hlen := writeField_length dm.arch pm pf _ _ bs facts hslot hwf'
  have hsz : szOf pf = 4 := by
    unfold szOf
    rw [hpb]
    have hne : ¬ (Base.uint32 = Base.string) := by decide
    simp only [harr, Bool.false_eq_true, ↓reduceIte, hne]
    decide
  refine ⟨bs, hwf', hlen, ?_⟩
  have hps : tcBase pf.tcode ≠ Base.string := by rw [hpb]; decide
  have hb4 : Base.size (tcBase pf.tcode) = 4 := by rw [hpb]; decide
  unfold applyField
  simp only [fdOf, hgf, hpm, hl, hk, harr]
  simp only [Bool.not_true, Bool.false_eq_true, ↓reduceIte, Bool.not_false]
  have hcond : tcBase pf.tcode ≠ Base.string ∧ True ∧ Kind.timeUTC ≠ Kind.native := ⟨hps, trivial, by simp⟩
  rw [if_pos hcond]
  have hpad : padTmp dm.arch (tcBase pf.tcode) bs (szOf pf) (Base.size (tcBase pf.tcode)) = bs := by
    unfold padTmp
    rw [hsz, hb4]
    simp
  rw [hpad]
  have hl4 : ¬ bs.length < 4 := by rw [hlen]; simp only [fdOf, hsz]; omega
  rw [if_neg hl4]
  have htk : bs.take 4 = bs := by
    have : bs.length = 4 := by rw [hlen]; simp only [fdOf, hsz]
    rw [← this]; exact List.take_length
  rw [htk]
  -- the value and the reference
  have hv : secs ≠ 0xFFFFFFFF := by omega
  have hpt : parseTimeStamp ts pf (dm.arch.dec bs) =
      (some (.t secs 0 0), if pf.num = fieldNumTimeStamp then { timestamp := secs, lastOff := secs % 32 } else ts) := by
    have hdec : dm.arch.dec bs = secs := by
      have : (parseTimeStamp ts pf (dm.arch.dec bs)).1 = some (.t secs 0 0) := hp
      unfold parseTimeStamp at this
      by_cases hx : dm.arch.dec bs = 0xFFFFFFFF
      · simp [hx] at this
      · simp only [hx, ↓reduceIte, hk] at this
        injection this with this
        injection this with this
        exact Int.ofNat.inj this
    rw [hdec]
    unfold parseTimeStamp
    simp only [hv, ↓reduceIte, hk]
  rw [hpt]
  simp

theorem toSigned32_roundtrip (z : Int) (hlo : -(2147483648 : Int) ≤ z) (hhi : z < 2147483648) :
    toSigned 32 ((toUnsigned 32 z) % 256 ^ 4) = z := by
  simp only [toSigned, toUnsigned, Nat.reducePow, Nat.reduceSub]
  apply ite_eq_of <;> intro h <;> omega

/-- **A coordinate field, end to end** (latitude: semicircles in [-2^30, 2^30); longitude: any
    32-bit value) -/
theorem coord_field_roundtrip (P : Profile) (hwf : ProfileWF P = true) (dm : DefMsg) (pf : PField)
    (msg : Msg) (ts : TsRef) (z : Int) (isLat : Bool)
    (hgf : P.getField dm.global pf.num = some pf)
    (hk : tcKind pf.tcode = (if isLat then .lat else .lng))
    (hlo : (if isLat then -(1073741824 : Int) else -(2147483648 : Int)) ≤ z)
    (hhi : z < (if isLat then (1073741824 : Int) else 2147483648)) :
    ∃ part, writeField dm.arch pf (if isLat then .lat else .lng) (if isLat then .lat z else .lng z) = .ok part ∧
      part.length = (fdOf pf).size ∧
      applyField P dm true (fdOf pf) part (some msg) ts =
        .ok (some { msg with vals := setAt msg.vals pf.sindex (if isLat then .lat z else .lng z) }) ts := by
  obtain ⟨pm, hpm, hfw⟩ := getField_wf P hwf _ _ _ hgf
  have facts := fieldWF_facts pm pf hfw
  obtain ⟨k, hl, hslot⟩ := facts.slot
  have hkind := facts.kind
  have hz : -(2147483648 : Int) ≤ z ∧ z < 2147483648 := by
    cases isLat <;> simp only [Bool.false_eq_true, ↓reduceIte] at hlo hhi <;> omega
  have hrt := toSigned32_roundtrip z hz.1 hz.2
  cases isLat with
  | true =>
    simp only [↓reduceIte] at hk hlo hhi ⊢
    rw [hk] at hkind
    obtain ⟨hpb, harr⟩ := hkind
    have hkt : k = .lat := by
      unfold slotOfType at hslot
      rw [hk] at hslot
      simp only [harr, Bool.false_eq_true, ↓reduceIte, Option.some.injEq] at hslot
      exact hslot.symm
    subst hkt
    have hwf' : writeField dm.arch pf .lat (.lat z) = .ok (dm.arch.enc 4 (toUnsigned 32 z)) := by
      unfold writeField
      simp only [harr, Bool.not_false, ↓reduceIte]
      simp [encodeScalar, hk]
    have hlen := writeField_length dm.arch pm pf _ _ _ facts hslot hwf'
    refine ⟨_, hwf', hlen, ?_⟩
    have hps : tcBase pf.tcode ≠ Base.string := by rw [hpb]; decide
    have hb4 : Base.size (tcBase pf.tcode) = 4 := by rw [hpb]; decide
    have hsz : szOf pf = 4 := by rw [← hlen]; exact enc_length _ _ _
    unfold applyField
    simp only [fdOf, hgf, hpm, hl, hk, harr]
    simp only [Bool.not_true, Bool.false_eq_true, ↓reduceIte, Bool.not_false]
    have hcond : tcBase pf.tcode ≠ Base.string ∧ True ∧ Kind.lat ≠ Kind.native := ⟨hps, trivial, by simp⟩
    rw [if_pos hcond]
    have hpad : padTmp dm.arch (tcBase pf.tcode) (dm.arch.enc 4 (toUnsigned 32 z)) (szOf pf) (Base.size (tcBase pf.tcode)) =
        dm.arch.enc 4 (toUnsigned 32 z) := by
      unfold padTmp; rw [hsz, hb4]; simp
    rw [hpad]
    have hl4 : ¬ (dm.arch.enc 4 (toUnsigned 32 z)).length < 4 := by rw [enc_length]; omega
    rw [if_neg hl4]
    have htk : (dm.arch.enc 4 (toUnsigned 32 z)).take 4 = dm.arch.enc 4 (toUnsigned 32 z) := by
      apply List.take_of_length_le
      rw [enc_length]
    simp only [ne_eq, not_true_eq_false, ↓reduceIte]
    rw [htk, dec_enc, hrt]
    have h1 : ¬ z = 2147483647 := by omega
    have h2 : ¬ (z < -1073741824 ∨ z > 1073741823) := by omega
    simp only [h1, h2, ↓reduceIte]
  | false =>
    simp only [Bool.false_eq_true, ↓reduceIte] at hk hlo hhi ⊢
    rw [hk] at hkind
    obtain ⟨hpb, harr⟩ := hkind
    have hkt : k = .lng := by
      unfold slotOfType at hslot
      rw [hk] at hslot
      simp only [harr, Bool.false_eq_true, ↓reduceIte, Option.some.injEq] at hslot
      exact hslot.symm
    subst hkt
    have hwf' : writeField dm.arch pf .lng (.lng z) = .ok (dm.arch.enc 4 (toUnsigned 32 z)) := by
      unfold writeField
      simp only [harr, Bool.not_false, ↓reduceIte]
      simp [encodeScalar, hk]
    have hlen := writeField_length dm.arch pm pf _ _ _ facts hslot hwf'
    refine ⟨_, hwf', hlen, ?_⟩
    have hps : tcBase pf.tcode ≠ Base.string := by rw [hpb]; decide
    have hb4 : Base.size (tcBase pf.tcode) = 4 := by rw [hpb]; decide
    have hsz : szOf pf = 4 := by rw [← hlen]; exact enc_length _ _ _
    unfold applyField
    simp only [fdOf, hgf, hpm, hl, hk, harr]
    simp only [Bool.not_true, Bool.false_eq_true, ↓reduceIte, Bool.not_false]
    have hcond : tcBase pf.tcode ≠ Base.string ∧ True ∧ Kind.lng ≠ Kind.native := ⟨hps, trivial, by simp⟩
    rw [if_pos hcond]
    have hpad : padTmp dm.arch (tcBase pf.tcode) (dm.arch.enc 4 (toUnsigned 32 z)) (szOf pf) (Base.size (tcBase pf.tcode)) =
        dm.arch.enc 4 (toUnsigned 32 z) := by
      unfold padTmp; rw [hsz, hb4]; simp
    rw [hpad]
    have hl4 : ¬ (dm.arch.enc 4 (toUnsigned 32 z)).length < 4 := by rw [enc_length]; omega
    rw [if_neg hl4]
    have htk : (dm.arch.enc 4 (toUnsigned 32 z)).take 4 = dm.arch.enc 4 (toUnsigned 32 z) := by
      apply List.take_of_length_le
      rw [enc_length]
    simp only [ne_eq, not_true_eq_false, ↓reduceIte]
    rw [htk, dec_enc, hrt]

/-! ### whole messages -/

/-- unsigned scalar fields satisfy the per-field round-trip condition of `message_roundtrip` -/
theorem fieldRT_unsigned (P : Profile) (hwf : ProfileWF P = true) (dm : DefMsg) (pf : PField) (w n : Nat)
    (hgf : P.getField dm.global pf.num = some pf)
    (hnat : tcKind pf.tcode = .native) (harr : tcArray pf.tcode = false)
    (hw : (w = 1 ∧ (tcBase pf.tcode = Base.enum ∨ tcBase pf.tcode = Base.byte ∨ tcBase pf.tcode = Base.uint8 ∨
              tcBase pf.tcode = Base.uint8z)) ∨
          (w = 2 ∧ (tcBase pf.tcode = Base.uint16 ∨ tcBase pf.tcode = Base.uint16z)) ∨
          (w = 4 ∧ (tcBase pf.tcode = Base.uint32 ∨ tcBase pf.tcode = Base.uint32z)))
    (hn : n < 256 ^ w) : FieldRT P dm pf (.sc (.u (8 * w))) (.u n) := by
  intro msg ts part hpart
  obtain ⟨part0, h1, _, h3⟩ := unsigned_field_roundtrip P hwf dm pf msg ts w n hgf hnat harr hw hn
  rw [h1] at hpart; cases hpart
  exact ⟨ts, h3⟩

theorem fieldRT_signed (P : Profile) (hwf : ProfileWF P = true) (dm : DefMsg) (pf : PField) (w : Nat) (z : Int)
    (hgf : P.getField dm.global pf.num = some pf)
    (hnat : tcKind pf.tcode = .native) (harr : tcArray pf.tcode = false)
    (hw : (w = 1 ∧ tcBase pf.tcode = Base.sint8) ∨ (w = 2 ∧ tcBase pf.tcode = Base.sint16) ∨
          (w = 4 ∧ tcBase pf.tcode = Base.sint32))
    (hlo : -(2 ^ (8 * w - 1) : Int) ≤ z) (hhi : z < (2 ^ (8 * w - 1) : Int)) :
    FieldRT P dm pf (.sc (.i (8 * w))) (.i z) := by
  intro msg ts part hpart
  obtain ⟨part0, h1, _, h3⟩ := signed_field_roundtrip P hwf dm pf msg ts w z hgf hnat harr hw hlo hhi
  rw [h1] at hpart; cases hpart
  exact ⟨ts, h3⟩

theorem fieldRT_string (P : Profile) (hwf : ProfileWF P = true) (dm : DefMsg) (pf : PField) (b : Bytes)
    (hgf : P.getField dm.global pf.num = some pf)
    (hnat : tcKind pf.tcode = .native) (harr : tcArray pf.tcode = false) (hstr : tcBase pf.tcode = Base.string)
    (hne : b ≠ []) (hfit : b.length < pf.length) (hnul : ∀ x ∈ b, x ≠ 0)
    (hutf : utf8Valid (b ++ List.replicate (pf.length - b.length) 0) = true) :
    FieldRT P dm pf (.sc .s) (.s b) := by
  intro msg ts part hpart
  obtain ⟨part0, h1, _, h3⟩ := string_field_roundtrip P hwf dm pf msg ts b hgf hnat harr hstr hne hfit hnul hutf
  rw [h1] at hpart; cases hpart
  exact ⟨ts, h3⟩

theorem fieldRT_time (P : Profile) (hwf : ProfileWF P = true) (dm : DefMsg) (pf : PField) (secs : Nat)
    (hgf : P.getField dm.global pf.num = some pf)
    (hk : tcKind pf.tcode = .timeUTC) (h1 : 0 < secs) (h2 : secs < 4294967295) :
    FieldRT P dm pf .time (.t secs 0 0) := by
  intro msg ts part hpart
  obtain ⟨part0, e1, _, e3⟩ := time_field_roundtrip P hwf dm pf msg ts secs hgf hk h1 h2
  rw [e1] at hpart; cases hpart
  exact ⟨_, e3⟩

theorem fieldRT_lat (P : Profile) (hwf : ProfileWF P = true) (dm : DefMsg) (pf : PField) (z : Int)
    (hgf : P.getField dm.global pf.num = some pf) (hk : tcKind pf.tcode = .lat)
    (hlo : -(1073741824 : Int) ≤ z) (hhi : z < 1073741824) : FieldRT P dm pf .lat (.lat z) := by
  intro msg ts part hpart
  obtain ⟨part0, e1, _, e3⟩ := coord_field_roundtrip P hwf dm pf msg ts z true hgf hk hlo hhi
  simp only [↓reduceIte] at e1 e3
  rw [e1] at hpart; cases hpart
  exact ⟨ts, e3⟩

theorem fieldRT_lng (P : Profile) (hwf : ProfileWF P = true) (dm : DefMsg) (pf : PField) (z : Int)
    (hgf : P.getField dm.global pf.num = some pf) (hk : tcKind pf.tcode = .lng)
    (hlo : -(2147483648 : Int) ≤ z) (hhi : z < 2147483648) : FieldRT P dm pf .lng (.lng z) := by
  intro msg ts part hpart
  obtain ⟨part0, e1, _, e3⟩ := coord_field_roundtrip P hwf dm pf msg ts z false hgf hk hlo hhi
  simp only [Bool.false_eq_true, ↓reduceIte] at e1 e3
  rw [e1] at hpart; cases hpart
  exact ⟨ts, e3⟩

/-- **Encode then Decode returns the message that was put in** (field loop level): for any message
    of a known type that `Encode` accepts, whose valid fields are of kinds that round-trip
    (`FieldRT`: established above for unsigned and signed scalars, strings, date_time values and coordinates)
    and whose other fields hold the constructor's invalid values, the decoder — reading the data
    record with the definition record that `Encode` wrote — rebuilds exactly that message. -/
theorem message_roundtrip (P : Profile) (hwf : ProfileWF P = true) (arch : Endian) (m : Msg) (bs : Bytes)
    (pm : PMsg) (hpm : P.msg? m.num = some pm) (hkn : pm.known = true)
    (h : encodeOne P arch m = .ok bs)
    (hrt : ∀ pf ∈ pm.fields, ∀ k v, pm.layout[pf.sindex]? = some k → m.vals[pf.sindex]? = some v →
      isInvalidVal pm pf.sindex v = false → ∀ fs, FieldRT P (defOf arch m.num fs) pf k v)
    (hinv : ∀ i v, m.vals[i]? = some v → isInvalidVal pm i v = true → pm.invalid[i]? = some v) :
    ∃ (fs : List PField) (parts : List Bytes),
      bs = serialize [.defn (defOf arch m.num fs) false, .data 0 parts []] ∧
      ∀ st : DecSt, ∃ st', stepFields P (defOf arch m.num fs) true (defOf arch m.num fs).fields parts
        (some ⟨m.num, pm.invalid⟩) st = .ok (some m) st' := by
  obtain ⟨fs, parts, h1, _, _, _, h5⟩ := Fit.message_roundtrip P hwf arch m bs pm hpm hkn h hrt hinv
  exact ⟨fs, parts, h1, h5⟩

/-- one concrete message through the whole model: `encodeOne`, the 14-byte header and file CRC of
    `frameBytes`, then the byte-level decoder (header, CRCs, definition, data, routing) -/
def exampleFileId : Msg := ⟨0, [.u 4, .u 1, .u 2, .u 3, .t 100 0 0, .u 5, .s [65, 66]]⟩

def encodeDecode (m : Msg) : Option Msg :=
  match encodeOne Gen.profile .le m with
  | .ok bs =>
    let o := (decodeSpec Gen.profile {} .full {} (frameBytes 0x20 2115 bs) .eof).1
    if o.err.isSome then none else o.st.file.map FileSt.fileId
  | _ => none

set_option maxRecDepth 100000 in
/-- kernel-evaluated on the regenerated profile: type, manufacturer, product, serial number,
    time_created, number and product_name all come back -/
example : encodeDecode exampleFileId = some exampleFileId := by decide +kernel

end Fit.Props.C06
