import FitModel.Encode
import FitModel.Items
import FitProofs.Codec
import FitProps.C02
import FitProps.C17
/-!
  C06 — Encode then Decode returns the values that were put in.

  Per-layer theorems: for every kind of field value, what `encodeScalar`/`encodeString` write is
  read back by `parseFitField` / the time and coordinate branches as the same value.  The
  composition over whole Files (`decode (encode f) ≈ f`) is checked on every run by the
  correspondence (real Encode → real Decode, compared with the model's prediction and with the
  input under the property's equivalence); its Lean proof is not yet assembled.
-/
namespace Fit.Props.C06
open Fit Fit.Props.C02

/-- unsigned scalars of 1, 2 and 4 bytes: written with `encodeScalar`, read back unchanged -/
theorem unsigned_roundtrip (arch : Endian) (pf : PField) (w n : Nat) (fd : FieldDef)
    (hk : tcKind pf.tcode = .native) (hb : tcBase pf.tcode ≠ Base.string)
    (hw : (w = 1 ∧ (fd.btype = Base.enum ∨ fd.btype = Base.byte ∨ fd.btype = Base.uint8 ∨ fd.btype = Base.uint8z)) ∨
          (w = 2 ∧ (fd.btype = Base.uint16 ∨ fd.btype = Base.uint16z)) ∨
          (w = 4 ∧ (fd.btype = Base.uint32 ∨ fd.btype = Base.uint32z)))
    (hn : n < 256 ^ w) :
    ∃ bs, encodeScalar arch pf (.u (8 * w)) (.u n) = .ok bs ∧
      parseFitField arch fd (.sc (.u (8 * w))) bs = .ok (some (.u n)) := by
  have hsw : scWidth (.u (8 * w)) = w := by simp [scWidth]
  refine ⟨arch.enc w n, ?_, ?_⟩
  · simp [encodeScalar, hk, hb, hsw]
  · have hd : wireNat arch (arch.enc w n) = n := by
      simp only [wireNat]; rw [dec_enc]; exact Nat.mod_eq_of_lt hn
    have hl := enc_length arch w n
    rcases hw with ⟨rfl, hbt⟩ | ⟨rfl, hbt⟩ | ⟨rfl, hbt⟩
    · have := (unsigned_field_denotes arch fd 8 (arch.enc 1 n)).1 hbt hl (by omega)
      rw [hd] at this; exact this
    · have := (unsigned_field_denotes arch fd 16 (arch.enc 2 n)).2.1 hbt hl (by omega)
      rw [hd] at this; exact this
    · have := (unsigned_field_denotes arch fd 32 (arch.enc 4 n)).2.2 hbt hl (by omega)
      rw [hd] at this; exact this

/-- signed scalars: two's complement out, two's complement back -/
theorem signed_roundtrip (arch : Endian) (pf : PField) (w : Nat) (z : Int) (fd : FieldDef)
    (hk : tcKind pf.tcode = .native) (hb : tcBase pf.tcode ≠ Base.string)
    (hw : (w = 1 ∧ fd.btype = Base.sint8) ∨ (w = 2 ∧ fd.btype = Base.sint16) ∨ (w = 4 ∧ fd.btype = Base.sint32))
    (hlo : -(2 ^ (8 * w - 1) : Int) ≤ z) (hhi : z < (2 ^ (8 * w - 1) : Int)) :
    ∃ bs, encodeScalar arch pf (.i (8 * w)) (.i z) = .ok bs ∧
      parseFitField arch fd (.sc (.i (8 * w))) bs = .ok (some (.i z)) := by
  have hsw : scWidth (.i (8 * w)) = w := by simp [scWidth]
  refine ⟨arch.enc w (toUnsigned (8 * w) z), ?_, ?_⟩
  · simp [encodeScalar, hk, hb, hsw]
  · have hl := enc_length arch w (toUnsigned (8 * w) z)
    have key : ∀ bits, bits = 8 ∨ bits = 16 ∨ bits = 32 → -(2 ^ (bits - 1) : Int) ≤ z → z < (2 ^ (bits - 1) : Int) →
        toSigned bits (toUnsigned bits z % 2 ^ bits) = z := by
      intro bits hb h1 h2
      rcases hb with rfl | rfl | rfl <;>
      · simp only [toSigned, toUnsigned, Nat.reducePow, Nat.reduceSub, Int.reducePow] at *
        apply ite_eq_of <;> intro h <;> omega
    rcases hw with ⟨rfl, hbt⟩ | ⟨rfl, hbt⟩ | ⟨rfl, hbt⟩
    · have := (signed_field_denotes arch fd 8 (arch.enc 1 (toUnsigned 8 z)) (Or.inl rfl)).1 hbt hl (by omega)
      simp only [wireNat, dec_enc] at this
      rw [show (256 : Nat) ^ 1 = 2 ^ 8 by decide, key 8 (Or.inl rfl) hlo hhi] at this
      exact this
    · have := (signed_field_denotes arch fd 16 (arch.enc 2 (toUnsigned 16 z)) (Or.inr (Or.inl rfl))).2.1 hbt hl (by omega)
      simp only [wireNat, dec_enc] at this
      rw [show (256 : Nat) ^ 2 = 2 ^ 16 by decide, key 16 (Or.inr (Or.inl rfl)) hlo hhi] at this
      exact this
    · have := (signed_field_denotes arch fd 32 (arch.enc 4 (toUnsigned 32 z)) (Or.inr (Or.inr (Or.inl rfl)))).2.2 hbt hl (by omega)
      simp only [wireNat, dec_enc] at this
      rw [show (256 : Nat) ^ 4 = 2 ^ 32 by decide, key 32 (Or.inr (Or.inr rfl)) hlo hhi] at this
      exact this

/-- strings: valid UTF-8 without NUL that fits (shorter than the profile length) comes back as is -/
theorem string_roundtrip (arch : Endian) (fd : FieldDef) (b : Bytes) (n : Nat)
    (hbt : fd.btype = Base.string) (hne : b ≠ []) (hfit : b.length < n) (hnul : ∀ x ∈ b, x ≠ 0)
    (hutf : utf8Valid (b ++ List.replicate (n - b.length) 0) = true) :
    ∃ bs, encodeString b n = .ok bs ∧ parseFitField arch fd (.sc .s) bs = .ok (some (.s b)) := by
  have hmin : min b.length (n - 1) = b.length := by omega
  refine ⟨b ++ List.replicate (n - b.length) 0, ?_, ?_⟩
  · unfold encodeString
    have : n ≠ 0 := by omega
    simp [this, hmin, hutf]
  · rw [string_field_denotes arch fd _ hbt]
    have htw : (b ++ List.replicate (n - b.length) 0).takeWhile (· != 0) = b := by
      rw [List.takeWhile_append_of_pos (by intro x hx; simpa using hnul x hx)]
      have : (List.replicate (n - b.length) (0 : UInt8)).takeWhile (· != 0) = [] := by
        cases hh : n - b.length with
        | zero => simp
        | succ k => simp [List.replicate_succ]
      rw [this, List.append_nil]
    rw [htw]
    cases b with
    | nil => exact absurd rfl hne
    | cons _ _ => simp

/-- date_time values: whole seconds in range come back unchanged -/
theorem time_value_roundtrip (arch : Endian) (pf : PField) (ts : TsRef) (secs : Nat)
    (hk : tcKind pf.tcode = .timeUTC) (h1 : 0 < secs) (h2 : secs < 4294967295) :
    ∃ bs, encodeScalar arch pf (.u 32) (.t secs 0 0) = .ok bs ∧
      (parseTimeStamp ts pf (arch.dec bs)).1 = some (.t secs 0 0) := by
  refine ⟨arch.enc 4 (LatLng.encodeTime secs), by simp [encodeScalar, hk], ?_⟩
  have he : LatLng.encodeTime (secs : Int) = secs := (Props.C17.time_bijection secs (by omega)).1
  rw [he, dec_enc, Nat.mod_eq_of_lt (by omega : secs < 256 ^ 4)]
  exact (Props.C12_datetime ts pf secs hk (by omega))
where
  Props.C12_datetime (ts : TsRef) (pf : PField) (v : Nat) (hk : tcKind pf.tcode = .timeUTC) (hv : v ≠ 0xFFFFFFFF) :
      (parseTimeStamp ts pf v).1 = some (.t v 0 0) := by
    unfold parseTimeStamp; simp [hv, hk]

end Fit.Props.C06
