import FitModel.Encode
import FitModel.Items
import FitModel.Gen.Profile
/-!
  C07 — anything Decode accepts can be re-encoded, and one round trip is a fixpoint.

  Partial.  Proved: the invariant behind the repaired defect D6 (a decoded File's container always
  matches its file type, so `Encode` never dereferences a nil container), and the known finding
  D13 as a counterexample theorem (a stream that Decode accepts and Encode rejects).  The full
  statement (`reencode`) is checked on every run over all accepted inputs by the correspondence
  and the generation-1/2/3 oracle; its Lean proof is not assembled.
-/
namespace Fit.Props.C07
open Fit

/-- once a container is attached, no message can change the file type or detach the container -/
theorem add_preserves_type (P : Profile) (f f' : FileSt) (m : Msg) (g g' : Globals) (i : Nat)
    (hc : f.cidx = some i) (hv : f.fileId.vals ≠ []) (hmv : m.vals ≠ [])
    (h : f.add P m g = some (f', g')) :
    fileTypeOf f' = fileTypeOf f ∧ f'.cidx = some i := by
  unfold FileSt.add at h
  split at h
  · -- file_id: the type is kept
    injection h with h
    injection h with h1 h2
    subst h1
    simp only [hc, fileTypeOf]
    cases hm : m.vals with
    | nil => exact absurd hm hmv
    | cons mv mrest =>
      cases hf : f.fileId.vals with
      | nil => exact absurd hf hv
      | cons t rest =>
        simp only [hm, hf]
        cases t <;> simp
  · split at h
    · injection h with h; injection h with h1 _; subst h1; exact ⟨rfl, hc⟩
    · split at h
      · injection h with h; injection h with h1 _; subst h1; exact ⟨rfl, hc⟩
      · split at h
        · injection h with h; injection h with h1 _; subst h1; exact ⟨rfl, hc⟩
        · split at h
          · injection h with h; injection h with h1 _; subst h1; exact ⟨rfl, hc⟩
          · simp only [hc] at h
            injection h with h; injection h with h1 _; subst h1; exact ⟨rfl, rfl⟩

/-- `init` attaches exactly the container of the file type -/
theorem init_matches_type (P : Profile) (f f' : FileSt) (h : f.init P = .ok f') :
    ∃ i, f'.cidx = some i ∧ P.initAns (fileTypeOf f') = .container i := by
  unfold FileSt.init at h
  split at h
  · rename_i i hi
    injection h with h
    subst h
    exact ⟨i, rfl, by simpa [fileTypeOf] using hi⟩
  · cases h
  · cases h

/-- hence `Encode` does not hit its nil-container panic on such a File: the type check passes -/
theorem encode_type_check_passes (P : Profile) (arch : Endian) (f : FileSt) (i : Nat)
    (hc : f.cidx = some i) (ht : P.initAns (fileTypeOf f) = .container i) :
    encode P arch f = (match encodeBody P arch f (P.containers.getD i default) with
      | .error .error => .error
      | .error .panic => .panic
      | .ok body => .ok (finishEncode f body).1 (finishEncode f body).2) := by
  unfold encode
  rw [ht]
  simp only [hc, ne_eq, not_true_eq_false, ↓reduceIte]
  cases encodeBody P arch f (P.containers.getD i default) with
  | error e => cases e <;> rfl
  | ok b => rfl

/-- D13 (known finding): a stream that Decode accepts whose File Encode rejects — a
    `file_id.product_name` that is not valid UTF-8 (bytes FF FE). -/
def d13Items : List Item :=
  [.defn ⟨0, .le, 0, [⟨0, 1, 0⟩, ⟨8, 3, 7⟩], []⟩ false,
   .data 0 [[4], [0xFF, 0xFE, 0x00]] []]

def d13Witness : Bool :=
  let data := frameBytes 0x20 2115 (serialize d13Items)
  let o := (decodeSpec Gen.profile {} .full {} data .eof).1
  o.err.isNone && !o.panic &&
    (match o.st.file with
     | some f => (match encode Gen.profile .le f with | .error => true | _ => false)
     | none => false)

theorem reencode_counterexample_utf8 : d13Witness = true := by decide +kernel

end Fit.Props.C07
