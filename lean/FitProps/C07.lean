import FitModel.Encode
import FitModel.Items
import FitModel.Gen.Profile
import FitProofs.TypedEncode
import FitProofs.DecodeEncode
import FitProofs.Chain
import FitProps.C01
import FitProps.C10
import FitProps.C05
import FitProps.C07Fix
import FitProps.C07Ok
import FitProps.C07Str
/-!
  C07 — anything Decode accepts can be re-encoded, and one round trip is a fixpoint.

  Proved: **`Encode` never panics on a File that `Decode` returned** (`reencode_never_panics`): every
  decoded File is well typed — every message of a known type, every struct field holding a value of
  its Go type, every container field holding messages of its element type, the container the one the
  file type selects (`decoded_file_typed`; FitProofs/Typed*.lean) — and `Encode` cannot panic on a
  well-typed File (`encode_no_panic`).  That Encode can *fail* on such a File is the known finding
  D13, a counterexample theorem here — and the only way it can: **`reencode_ok_unless_strings`**
  (if every string of the decoded File re-encodes at its field's length, `Encode` returns bytes;
  FitProps/C07Str.lean).  **`reencode_passes_integrity`**: whatever `Encode` writes for a decoded File
  passes `CheckIntegrity` (the typing invariant carries the header `decodeHeader` accepted;
  `CheckIntegrity` accepts every frame, FitProofs/IntegFrame.lean).  That the bytes decode to the same
  content is proved for Files in `fileRTB` (C05/C06) and otherwise checked on every run over all
  accepted inputs by the correspondence and the generation-1/2/3 oracle.

  **`second_trip_fixpoint`** proves the last clause on that domain: for a File in `fileRTB` (C06)
  of the typed shape whose messages have no component fields, the File `F1` that `Decode` returns
  for `Encode f` is a fixed point of the trip — encoded again in either byte order, if `Encode`
  accepts it, it decodes to the same file_id, file_creator, timestamp_correlation and, slot by
  slot, the same messages (FitProps/C07Fix.lean: `fileRTB_wire`, the domain is closed under the
  trip; FitProofs/Fixpoint.lean: `wireMsg_idem`, padding to the profile length is idempotent, and a
  field no message of a slice carries is still such a field afterwards); **`second_trip_total`**
  derives the second `Encode`'s success as well (FitProps/C07Ok.lean: no value of the domain is
  refused by `writeField`).
-/
namespace Fit.Props.C07
open Fit

/-- once a container is attached, no message can change the file type or detach the container -/
theorem add_preserves_type (P : Profile) (f f' : FileSt) (m : Msg) (g g' : Globals) (i : Nat)
    (hc : f.cidx = some i) (hv : f.fileId.vals ≠ []) (hmv : m.vals ≠ [])
    (h : f.add P m g = some (f', g')) :
    fileTypeOf f' = fileTypeOf f ∧ f'.cidx = some i := by
  unfold FileSt.add at h
  split at h
  · -- file_id: the type is kept
    injection h with h
    injection h with h1 h2
    subst h1
    simp only [hc, fileTypeOf]
    cases hm : m.vals with
    | nil => exact absurd hm hmv
    | cons mv mrest =>
      cases hf : f.fileId.vals with
      | nil => exact absurd hf hv
      | cons t rest =>
        simp only [hm, hf]
        cases t <;> simp
  · split at h
    · injection h with h; injection h with h1 _; subst h1; exact ⟨rfl, hc⟩
    · split at h
      · injection h with h; injection h with h1 _; subst h1; exact ⟨rfl, hc⟩
      · split at h
        · injection h with h; injection h with h1 _; subst h1; exact ⟨rfl, hc⟩
        · split at h
          · injection h with h; injection h with h1 _; subst h1; exact ⟨rfl, hc⟩
          · simp only [hc] at h
            injection h with h; injection h with h1 _; subst h1; exact ⟨rfl, rfl⟩

/-- `init` attaches exactly the container of the file type -/
theorem init_matches_type (P : Profile) (f f' : FileSt) (h : f.init P = .ok f') :
    ∃ i, f'.cidx = some i ∧ P.initAns (fileTypeOf f') = .container i := by
  unfold FileSt.init at h
  split at h
  · rename_i i hi
    injection h with h
    subst h
    exact ⟨i, rfl, by simpa [fileTypeOf] using hi⟩
  · cases h
  · cases h

/-- hence `Encode` does not hit its nil-container panic on such a File: the type check passes -/
theorem encode_type_check_passes (P : Profile) (arch : Endian) (f : FileSt) (i : Nat)
    (hc : f.cidx = some i) (ht : P.initAns (fileTypeOf f) = .container i) :
    encode P arch f = (match encodeBody P arch f (P.containers.getD i default) with
      | .error .error => .error
      | .error .panic => .panic
      | .ok body => .ok (finishEncode f body).1 (finishEncode f body).2) := by
  unfold encode
  rw [ht]
  simp only [hc, ne_eq, not_true_eq_false, ↓reduceIte]
  cases encodeBody P arch f (P.containers.getD i default) with
  | error e => cases e <;> rfl
  | ok b => rfl

/-- D13 (known finding): a stream that Decode accepts whose File Encode rejects — a
    `file_id.product_name` that is not valid UTF-8 (bytes FF FE). -/
def d13Items : List Item :=
  [.defn ⟨0, .le, 0, [⟨0, 1, 0⟩, ⟨8, 3, 7⟩], []⟩ false,
   .data 0 [[4], [0xFF, 0xFE, 0x00]] []]

def d13Witness : Bool :=
  let data := frameBytes 0x20 2115 (serialize d13Items)
  let o := (decodeSpec Gen.profile {} .full {} data .eof).1
  o.err.isNone && !o.panic &&
    (match o.st.file with
     | some f => (match encode Gen.profile .le f with | .error => true | _ => false)
     | none => false)

theorem reencode_counterexample_utf8 : d13Witness = true := by decide +kernel

/-! ### Encode never panics on a decoded File -/

/-- on the regenerated profile, every destination of `expandComponents` is an unsigned scalar struct
    field, and file_id has fields -/
theorem gen_xok : xokB Gen.profile = true := by decide +kernel
theorem gen_fid_layout : fidLayoutB Gen.profile = true := by decide +kernel

/-- **Every File a successful `Decode` returns is well typed and has its container attached.** -/
theorem decoded_file_typed (P : Profile) (hwf : ProfileWF P = true) (hx : xokB P = true) (hfl : fidLayoutB P = true)
    (o : Opts) (g : Globals) (r : Reader) (hs : (decode P o .full g r).1.success) (F : FileSt)
    (hF : (decode P o .full g r).1.st.file = some F) : FileTyped P F ∧ F.cidx.isSome = true := by
  rw [decode_out_eq_spec] at hs hF
  have hs' := spec_success_of P o .full g r.data r.stop hs
  have ht := success_typed P hwf hx hfl g { rest := r.data, stop := r.stop, taken := 0 } hs'
  unfold decodeSpec at hF
  simp only at hF
  cases hf0 : (runSpec (decodeProg P .full g) { rest := r.data, stop := r.stop, taken := 0 }).1.st.file with
  | none =>
    unfold finalize at hF
    split at hF
    · rw [hf0] at hF; cases hF
    · simp only [hf0, Option.map_none] at hF; cases hF
  | some F0 =>
    obtain ⟨F', h1, h2, _⟩ := finalize_content o _ F0 hf0
    rw [h1] at hF
    cases hF
    obtain ⟨e1, _, e3, e4, e5, _, _, e8, e9⟩ := h2
    obtain ⟨t1, t2⟩ := ht F0 hf0
    exact ⟨t1.congr e3 e4 e5 e8 e9 e1, by rw [e8]; exact t2⟩

/-- **`Encode` of the result of a successful `Decode` never panics**, for any input bytes, read
    schedule, option set, package state and byte order. -/
theorem reencode_never_panics (P : Profile) (hwf : ProfileWF P = true) (hx : xokB P = true) (hfl : fidLayoutB P = true)
    (o : Opts) (g : Globals) (r : Reader) (arch : Endian) (hs : (decode P o .full g r).1.success) (F : FileSt)
    (hF : (decode P o .full g r).1.st.file = some F) : encode P arch F ≠ .panic := by
  obtain ⟨h1, h2⟩ := decoded_file_typed P hwf hx hfl o g r hs F hF
  exact encode_no_panic P hwf arch F h1 h2

/-- the instance for the tree under check -/
theorem reencode_never_panics_gen (o : Opts) (g : Globals) (r : Reader) (arch : Endian)
    (hs : (decode Gen.profile o .full g r).1.success) (F : FileSt)
    (hF : (decode Gen.profile o .full g r).1.st.file = some F) : encode Gen.profile arch F ≠ .panic :=
  reencode_never_panics Gen.profile C01.gen_wf gen_xok gen_fid_layout o g r arch hs F hF

set_option maxRecDepth 100000 in
/-- the premises are satisfiable: the 25-byte file of C10, read through any reader that delivers
    its bytes and then EOF, decodes successfully to a File, and `Encode` of that File — in either
    byte order — does not panic -/
example (r : Reader) (hd : r.data = C10.minFile) (hstop : r.stop = .eof) (arch : Endian) :
    ∃ F, (decode Gen.profile {} .full {} r).1.st.file = some F ∧ encode Gen.profile arch F ≠ .panic := by
  have hspec : (decodeSpec Gen.profile {} .full {} C10.minFile .eof).1.success ∧
      (decodeSpec Gen.profile {} .full {} C10.minFile .eof).1.st.file.isSome = true := by decide +kernel
  have hs : (decode Gen.profile {} .full {} r).1.success := by
    rw [decode_out_eq_spec, hd, hstop]; exact hspec.1
  have hf : (decode Gen.profile {} .full {} r).1.st.file.isSome = true := by
    rw [decode_out_eq_spec, hd, hstop]; exact hspec.2
  obtain ⟨F, hF⟩ := Option.isSome_iff_exists.mp hf
  exact ⟨F, hF, reencode_never_panics_gen {} {} r arch hs F hF⟩

/-- no message type a File of the regenerated profile can hold has a string-array field -/
theorem gen_held_no_string_arrays : heldNoStrArrB Gen.profile = true := by decide +kernel

/-- **`Encode` of what `Decode` returned fails only through a string** (finding D13, made exact): for
    any input, read schedule, option set, package state and byte order, if every string field of the
    decoded File re-encodes — `encodeString` accepts it at the field's profile length, i.e. cut to the
    field size it is still valid UTF-8 — then `Encode` returns bytes: it cannot panic (the File is
    well typed) and no other value a decoded File can hold is refused by `writeField`
    (`writeField_typed_no_error`; FitProps/C07Str.lean). -/
theorem reencode_ok_unless_strings (P : Profile) (hwf : ProfileWF P = true) (hx : xokB P = true) (hfl : fidLayoutB P = true)
    (hheld : heldNoStrArrB P = true)
    (o : Opts) (g : Globals) (r : Reader) (arch : Endian) (hs : (decode P o .full g r).1.success) (F : FileSt)
    (hF : (decode P o .full g r).1.st.file = some F)
    (hstr : (∀ pm, P.msg? F.fileId.num = some pm → StringsEncode pm F.fileId) ∧
      (∀ m, F.creator = some m → ∀ pm, P.msg? m.num = some pm → StringsEncode pm m) ∧
      (∀ m, F.tscorr = some m → ∀ pm, P.msg? m.num = some pm → StringsEncode pm m) ∧
      (∀ ms ∈ F.slots, ∀ m ∈ ms, ∀ pm, P.msg? m.num = some pm → StringsEncode pm m)) :
    ∃ bs f', encode P arch F = .ok bs f' := by
  obtain ⟨h1, h2⟩ := decoded_file_typed P hwf hx hfl o g r hs F hF
  exact encode_typed_ok_strings P hwf hheld arch F h1 h2 hstr

/-- the instance for the tree under check -/
theorem reencode_ok_unless_strings_gen (o : Opts) (g : Globals) (r : Reader) (arch : Endian)
    (hs : (decode Gen.profile o .full g r).1.success) (F : FileSt)
    (hF : (decode Gen.profile o .full g r).1.st.file = some F)
    (hstr : (∀ pm, Gen.profile.msg? F.fileId.num = some pm → StringsEncode pm F.fileId) ∧
      (∀ m, F.creator = some m → ∀ pm, Gen.profile.msg? m.num = some pm → StringsEncode pm m) ∧
      (∀ m, F.tscorr = some m → ∀ pm, Gen.profile.msg? m.num = some pm → StringsEncode pm m) ∧
      (∀ ms ∈ F.slots, ∀ m ∈ ms, ∀ pm, Gen.profile.msg? m.num = some pm → StringsEncode pm m)) :
    ∃ bs f', encode Gen.profile arch F = .ok bs f' :=
  reencode_ok_unless_strings Gen.profile C01.gen_wf gen_xok gen_fid_layout gen_held_no_string_arrays o g r arch hs F hF hstr

/-- **The re-encoded bytes pass `CheckIntegrity`** — for every decoded File `Encode` accepts, with no
    hypothesis on its messages: the File carries the header `decodeHeader` accepted (12 or 14 bytes,
    ".FIT", a supported protocol version — part of the typing invariant, `FileTyped.hdr`), so what
    `Encode` lays out is a frame whose header and trailing CRCs the integrity pass recomputes
    (`C05.encode_passes_integrity_any`). With `reencode_ok_unless_strings`: unless a string stands in
    the way, re-encoding a decoded File gives bytes that pass `CheckIntegrity`. -/
theorem reencode_passes_integrity (P : Profile) (hwf : ProfileWF P = true) (hx : xokB P = true) (hfl : fidLayoutB P = true)
    (o : Opts) (g : Globals) (r : Reader) (arch : Endian) (hs : (decode P o .full g r).1.success) (F : FileSt)
    (hF : (decode P o .full g r).1.st.file = some F) (bs : Bytes) (f' : FileSt)
    (he : encode P arch F = .ok bs f') (hsmall : bs.length < 4294967296)
    (o2 : Opts) (g2 : Globals) (tail : Bytes) (stop : Stop) :
    (decodeSpec P o2 .crcOnly g2 (bs ++ tail) stop).1.success := by
  obtain ⟨h1, _⟩ := decoded_file_typed P hwf hx hfl o g r hs F hF
  obtain ⟨hsz, htag, hp, hp2⟩ := h1.hdr
  exact C05.encode_passes_integrity_any P arch F f' bs he hsz htag ⟨hp, hp2⟩ hsmall o2 g2 tail stop

/-- the instance for the tree under check -/
theorem reencode_passes_integrity_gen (o : Opts) (g : Globals) (r : Reader) (arch : Endian)
    (hs : (decode Gen.profile o .full g r).1.success) (F : FileSt)
    (hF : (decode Gen.profile o .full g r).1.st.file = some F) (bs : Bytes) (f' : FileSt)
    (he : encode Gen.profile arch F = .ok bs f') (hsmall : bs.length < 4294967296)
    (o2 : Opts) (g2 : Globals) (tail : Bytes) (stop : Stop) :
    (decodeSpec Gen.profile o2 .crcOnly g2 (bs ++ tail) stop).1.success :=
  reencode_passes_integrity Gen.profile C01.gen_wf gen_xok gen_fid_layout o g r arch hs F hF bs f' he hsmall o2 g2 tail stop

/-- the string premise is satisfiable and can fail: the product name "AB" of `C06.exampleFileId`
    re-encodes; a name that is cut inside a two-byte character does not (D13) -/
example :
    (match Gen.profile.msg? 0 with
     | some pm => stringsEncodeB pm C06.exampleFileId &&
         !stringsEncodeB pm ⟨0, [.u 4, .u 1, .u 2, .u 3, .t 100 0 0, .u 5,
           .s ((List.replicate 18 65) ++ [0xC3, 0xA9])]⟩
     | none => false) = true := by decide +kernel

/-- **Second generation: the first trip's result is a fixed point** (instance for the tree under
    check; generic statement and proof: `Fit.second_trip_fixpoint`). For every File `f` in the
    decidable round-trip domain of C06 whose messages have no component fields and that `Encode`
    accepts: `Decode (Encode f)` succeeds with a File `F1`, and for every byte order, if `Encode`
    accepts `F1`, then `Decode (Encode F1)` succeeds — through any reader, with any options and
    package state, with anything after the bytes — and returns the same file_id, file_creator,
    timestamp_correlation, container and slots as `F1`, leaving the accumulators untouched. -/
theorem second_trip_fixpoint (arch arch2 : Endian) (f f' : FileSt) (bs : Bytes)
    (h : encode Gen.profile arch f = .ok bs f') (hdom : C06.fileRTB Gen.profile f = true)
    (hsmall : bs.length < 4294967296)
    (hsh : ∀ i, f.cidx = some i → C06.fileShapeB (Gen.profile.containers.getD i default) f = true)
    (hone : ∀ i, f.cidx = some i → ∀ z ∈ (Gen.profile.containers.getD i default).slots.zip f.slots,
      z.1.many = false → z.2.length ≤ 1)
    (hnx : ∀ ms ∈ f.slots, ∀ m ∈ ms, expandSet.contains m.num = false)
    (o : Opts) (g : Globals) (tail : Bytes) (stop : Stop) :
    ∃ F1 : FileSt,
      (decodeSpec Gen.profile o .full g (bs ++ tail) stop).1.success ∧
      (decodeSpec Gen.profile o .full g (bs ++ tail) stop).1.st.file = some F1 ∧
      ∀ (f2' : FileSt) (bs2 : Bytes), encode Gen.profile arch2 F1 = .ok bs2 f2' → bs2.length < 4294967296 →
        ∀ (o2 : Opts) (g2 : Globals) (tail2 : Bytes) (stop2 : Stop),
          ∃ F2 : FileSt,
            (decodeSpec Gen.profile o2 .full g2 (bs2 ++ tail2) stop2).1.success ∧
            (decodeSpec Gen.profile o2 .full g2 (bs2 ++ tail2) stop2).1.st.file = some F2 ∧
            F2.fileId = F1.fileId ∧ F2.creator = F1.creator ∧ F2.tscorr = F1.tscorr ∧ F2.cidx = F1.cidx ∧
            F2.slots = F1.slots ∧
            (decodeSpec Gen.profile o2 .full g2 (bs2 ++ tail2) stop2).1.st.glob = g2 :=
  Fit.second_trip_fixpoint Gen.profile C01.gen_wf C06.gen_containers_ok arch arch2 f f' bs h hdom hsmall
    (fun i hi => C06.fileShapeB_sound _ f (hsh i hi)) hone hnx o g tail stop

/-- **Second generation, with the second `Encode` derived (C07).** As `second_trip_fixpoint`, and the
    File `F1` that the first trip returns *is accepted* by `Encode` in every byte order: it cannot
    panic, because a decoded File is well typed (`reencode_never_panics`), and it cannot fail, because
    `F1` is in the round-trip domain again and no value of that domain is refused by `writeField`
    (`encode_no_error`). -/
theorem second_trip_total_of (P : Profile) (hwf : ProfileWF P = true) (hcont : ∀ c ∈ P.containers, containerOK c = true)
    (hx : xokB P = true) (hfl : fidLayoutB P = true)
    (arch arch2 : Endian) (f f' : FileSt) (bs : Bytes)
    (h : encode P arch f = .ok bs f') (hdom : C06.fileRTB P f = true) (hsmall : bs.length < 4294967296)
    (hsh : ∀ i, f.cidx = some i → FileShape (P.containers.getD i default) f)
    (hone : ∀ i, f.cidx = some i → ∀ z ∈ (P.containers.getD i default).slots.zip f.slots, z.1.many = false → z.2.length ≤ 1)
    (hnx : ∀ ms ∈ f.slots, ∀ m ∈ ms, expandSet.contains m.num = false)
    (o : Opts) (g : Globals) (tail : Bytes) (stop : Stop) :
    ∃ F1 : FileSt,
      (decodeSpec P o .full g (bs ++ tail) stop).1.success ∧
      (decodeSpec P o .full g (bs ++ tail) stop).1.st.file = some F1 ∧
      ∃ (bs2 : Bytes) (f2' : FileSt), encode P arch2 F1 = .ok bs2 f2' ∧
        (bs2.length < 4294967296 →
          ∀ (o2 : Opts) (g2 : Globals) (tail2 : Bytes) (stop2 : Stop),
            ∃ F2 : FileSt,
              (decodeSpec P o2 .full g2 (bs2 ++ tail2) stop2).1.success ∧
              (decodeSpec P o2 .full g2 (bs2 ++ tail2) stop2).1.st.file = some F2 ∧
              F2.fileId = F1.fileId ∧ F2.creator = F1.creator ∧ F2.tscorr = F1.tscorr ∧ F2.cidx = F1.cidx ∧
              F2.slots = F1.slots ∧
              (decodeSpec P o2 .full g2 (bs2 ++ tail2) stop2).1.st.glob = g2) := by
  obtain ⟨F1, hsucc, hfile, hrest⟩ :=
    Fit.second_trip_fixpoint P hwf hcont arch arch2 f f' bs h hdom hsmall hsh hone hnx o g tail stop
  refine ⟨F1, hsucc, hfile, ?_⟩
  -- what the first trip says about F1
  obtain ⟨i, _, hci, _⟩ := decode_encode_content P hwf hcont arch f f' bs h (C06.fileRTB_sound P hwf arch f hdom) hsmall hsh o g tail stop
  obtain ⟨F1', _, hfile', a1, a2, a3, _, _, _, a7, _, aH⟩ :=
    decode_encode_identity P hwf hcont arch f f' bs h (C06.fileRTB_sound P hwf arch f hdom) hsmall hsh hone hnx o g tail stop
  rw [hfile] at hfile'
  injection hfile' with e
  subst e
  have hdom1 : C06.fileRTB P F1 = true :=
    fileRTB_of_fields P F1 (wireFile P (P.containers.getD i default) f) aH a1 a2 a3 (a7 i hci)
      (fileRTB_wire P hwf _ f (hone i hci) hdom)
  -- no panic: F1 is a decoded File
  let r : Reader := { data := bs ++ tail, stop := stop, sched := [], tick := 0, errWithData := false, pos := 0 }
  have hs : (decode P o .full g r).1.success := by rw [decode_out_eq_spec]; exact hsucc
  have hF : (decode P o .full g r).1.st.file = some F1 := by rw [decode_out_eq_spec]; exact hfile
  obtain ⟨t1, t2⟩ := decoded_file_typed P hwf hx hfl o g r hs F1 hF
  have hnp : encode P arch2 F1 ≠ .panic := encode_no_panic P hwf arch2 F1 t1 t2
  -- no error: F1 is in the domain
  obtain ⟨j, hj⟩ := encode_ok_init P arch f f' bs h
  have hinit : ∃ j, P.initAns (fileTypeOf F1) = .container j := ⟨j, by rw [fileTypeOf_wire1 P f F1 a1]; exact hj⟩
  cases he : encode P arch2 F1 with
  | ok bs2 f2' => exact ⟨bs2, f2', rfl, fun hs2 => hrest f2' bs2 he hs2⟩
  | panic => exact absurd he hnp
  | error =>
    have := encode_no_error P hwf arch2 F1 hdom1 hinit (by intro b x hb; rw [he] at hb; cases hb)
    rw [he] at this; cases this


/-- the instance for the tree under check -/
theorem second_trip_total (arch arch2 : Endian) (f f' : FileSt) (bs : Bytes)
    (h : encode Gen.profile arch f = .ok bs f') (hdom : C06.fileRTB Gen.profile f = true)
    (hsmall : bs.length < 4294967296)
    (hsh : ∀ i, f.cidx = some i → C06.fileShapeB (Gen.profile.containers.getD i default) f = true)
    (hone : ∀ i, f.cidx = some i → ∀ z ∈ (Gen.profile.containers.getD i default).slots.zip f.slots,
      z.1.many = false → z.2.length ≤ 1)
    (hnx : ∀ ms ∈ f.slots, ∀ m ∈ ms, expandSet.contains m.num = false)
    (o : Opts) (g : Globals) (tail : Bytes) (stop : Stop) :
    ∃ F1 : FileSt,
      (decodeSpec Gen.profile o .full g (bs ++ tail) stop).1.success ∧
      (decodeSpec Gen.profile o .full g (bs ++ tail) stop).1.st.file = some F1 ∧
      ∃ (bs2 : Bytes) (f2' : FileSt), encode Gen.profile arch2 F1 = .ok bs2 f2' ∧
        (bs2.length < 4294967296 →
          ∀ (o2 : Opts) (g2 : Globals) (tail2 : Bytes) (stop2 : Stop),
            ∃ F2 : FileSt,
              (decodeSpec Gen.profile o2 .full g2 (bs2 ++ tail2) stop2).1.success ∧
              (decodeSpec Gen.profile o2 .full g2 (bs2 ++ tail2) stop2).1.st.file = some F2 ∧
              F2.fileId = F1.fileId ∧ F2.creator = F1.creator ∧ F2.tscorr = F1.tscorr ∧ F2.cidx = F1.cidx ∧
              F2.slots = F1.slots ∧
              (decodeSpec Gen.profile o2 .full g2 (bs2 ++ tail2) stop2).1.st.glob = g2) :=
  second_trip_total_of Gen.profile C01.gen_wf C06.gen_containers_ok gen_xok gen_fid_layout arch arch2 f f' bs h hdom hsmall
    (fun i hi => C06.fileShapeB_sound _ f (hsh i hi)) hone hnx o g tail stop

/-- both trips of `C06.exampleSettings`, evaluated: first trip in byte order `a1`, second in `a2` -/
def secondTripExample (sz : Nat) (a1 a2 : Endian) : Bool :=
  match encode Gen.profile a1 (C06.exampleSettings sz) with
  | .ok bs _ =>
    match (decodeSpec Gen.profile {} .full {} bs .eof).1.st.file with
    | some F1 =>
      match encode Gen.profile a2 F1 with
      | .ok bs2 _ =>
        decide (bs2.length < 4294967296) &&
        match (decodeSpec Gen.profile {} .full {} bs2 .eof).1.st.file with
        | some F2 => decide (F2.slots = F1.slots) && decide (F1.slots = C06.exampleSettingsBack) && decide (F2.fileId = F1.fileId)
        | none => false
      | _ => false
    | none => false
  | _ => false

set_option maxRecDepth 100000 in
/-- the premises of `second_trip_fixpoint` are satisfiable, the second `Encode` included: the File
    that comes back for `C06.exampleSettings` (arrays padded, fillers turned into all-invalid
    arrays) is accepted by `Encode` in the other byte order and decodes to itself -/
example : secondTripExample 12 .le .be = true ∧ secondTripExample 14 .be .le = true := by
  constructor <;> decide +kernel

end Fit.Props.C07
