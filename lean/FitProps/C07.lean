import FitModel.Encode
import FitModel.Items
import FitModel.Gen.Profile
import FitProofs.TypedEncode
import FitProofs.DecodeEncode
import FitProofs.Chain
import FitProps.C01
import FitProps.C10
/-!
  C07 — anything Decode accepts can be re-encoded, and one round trip is a fixpoint.

  Proved: **`Encode` never panics on a File that `Decode` returned** (`reencode_never_panics`): every
  decoded File is well typed — every message of a known type, every struct field holding a value of
  its Go type, every container field holding messages of its element type, the container the one the
  file type selects (`decoded_file_typed`; FitProofs/Typed*.lean) — and `Encode` cannot panic on a
  well-typed File (`encode_no_panic`).  That Encode can *fail* on such a File is the known finding
  D13, a counterexample theorem here.  The remaining clauses (the output passes CheckIntegrity and
  decodes to the same content; the second round trip is a fixpoint) are checked on every run over all
  accepted inputs by the correspondence and the generation-1/2/3 oracle; C05/C06 prove them for Files
  in `fileRTB`.
-/
namespace Fit.Props.C07
open Fit

/-- once a container is attached, no message can change the file type or detach the container -/
theorem add_preserves_type (P : Profile) (f f' : FileSt) (m : Msg) (g g' : Globals) (i : Nat)
    (hc : f.cidx = some i) (hv : f.fileId.vals ≠ []) (hmv : m.vals ≠ [])
    (h : f.add P m g = some (f', g')) :
    fileTypeOf f' = fileTypeOf f ∧ f'.cidx = some i := by
  unfold FileSt.add at h
  split at h
  · -- file_id: the type is kept
    injection h with h
    injection h with h1 h2
    subst h1
    simp only [hc, fileTypeOf]
    cases hm : m.vals with
    | nil => exact absurd hm hmv
    | cons mv mrest =>
      cases hf : f.fileId.vals with
      | nil => exact absurd hf hv
      | cons t rest =>
        simp only [hm, hf]
        cases t <;> simp
  · split at h
    · injection h with h; injection h with h1 _; subst h1; exact ⟨rfl, hc⟩
    · split at h
      · injection h with h; injection h with h1 _; subst h1; exact ⟨rfl, hc⟩
      · split at h
        · injection h with h; injection h with h1 _; subst h1; exact ⟨rfl, hc⟩
        · split at h
          · injection h with h; injection h with h1 _; subst h1; exact ⟨rfl, hc⟩
          · simp only [hc] at h
            injection h with h; injection h with h1 _; subst h1; exact ⟨rfl, rfl⟩

/-- `init` attaches exactly the container of the file type -/
theorem init_matches_type (P : Profile) (f f' : FileSt) (h : f.init P = .ok f') :
    ∃ i, f'.cidx = some i ∧ P.initAns (fileTypeOf f') = .container i := by
  unfold FileSt.init at h
  split at h
  · rename_i i hi
    injection h with h
    subst h
    exact ⟨i, rfl, by simpa [fileTypeOf] using hi⟩
  · cases h
  · cases h

/-- hence `Encode` does not hit its nil-container panic on such a File: the type check passes -/
theorem encode_type_check_passes (P : Profile) (arch : Endian) (f : FileSt) (i : Nat)
    (hc : f.cidx = some i) (ht : P.initAns (fileTypeOf f) = .container i) :
    encode P arch f = (match encodeBody P arch f (P.containers.getD i default) with
      | .error .error => .error
      | .error .panic => .panic
      | .ok body => .ok (finishEncode f body).1 (finishEncode f body).2) := by
  unfold encode
  rw [ht]
  simp only [hc, ne_eq, not_true_eq_false, ↓reduceIte]
  cases encodeBody P arch f (P.containers.getD i default) with
  | error e => cases e <;> rfl
  | ok b => rfl

/-- D13 (known finding): a stream that Decode accepts whose File Encode rejects — a
    `file_id.product_name` that is not valid UTF-8 (bytes FF FE). -/
def d13Items : List Item :=
  [.defn ⟨0, .le, 0, [⟨0, 1, 0⟩, ⟨8, 3, 7⟩], []⟩ false,
   .data 0 [[4], [0xFF, 0xFE, 0x00]] []]

def d13Witness : Bool :=
  let data := frameBytes 0x20 2115 (serialize d13Items)
  let o := (decodeSpec Gen.profile {} .full {} data .eof).1
  o.err.isNone && !o.panic &&
    (match o.st.file with
     | some f => (match encode Gen.profile .le f with | .error => true | _ => false)
     | none => false)

theorem reencode_counterexample_utf8 : d13Witness = true := by decide +kernel

/-! ### Encode never panics on a decoded File -/

/-- on the regenerated profile, every destination of `expandComponents` is an unsigned scalar struct
    field, and file_id has fields -/
theorem gen_xok : xokB Gen.profile = true := by decide +kernel
theorem gen_fid_layout : fidLayoutB Gen.profile = true := by decide +kernel

/-- **Every File a successful `Decode` returns is well typed and has its container attached.** -/
theorem decoded_file_typed (P : Profile) (hwf : ProfileWF P = true) (hx : xokB P = true) (hfl : fidLayoutB P = true)
    (o : Opts) (g : Globals) (r : Reader) (hs : (decode P o .full g r).1.success) (F : FileSt)
    (hF : (decode P o .full g r).1.st.file = some F) : FileTyped P F ∧ F.cidx.isSome = true := by
  rw [decode_out_eq_spec] at hs hF
  have hs' := spec_success_of P o .full g r.data r.stop hs
  have ht := success_typed P hwf hx hfl g { rest := r.data, stop := r.stop, taken := 0 } hs'
  unfold decodeSpec at hF
  simp only at hF
  cases hf0 : (runSpec (decodeProg P .full g) { rest := r.data, stop := r.stop, taken := 0 }).1.st.file with
  | none =>
    unfold finalize at hF
    split at hF
    · rw [hf0] at hF; cases hF
    · simp only [hf0, Option.map_none] at hF; cases hF
  | some F0 =>
    obtain ⟨F', h1, h2, _⟩ := finalize_content o _ F0 hf0
    rw [h1] at hF
    cases hF
    obtain ⟨_, _, e3, e4, e5, _, _, e8, e9⟩ := h2
    obtain ⟨t1, t2⟩ := ht F0 hf0
    exact ⟨t1.congr e3 e4 e5 e8 e9, by rw [e8]; exact t2⟩

/-- **`Encode` of the result of a successful `Decode` never panics**, for any input bytes, read
    schedule, option set, package state and byte order. -/
theorem reencode_never_panics (P : Profile) (hwf : ProfileWF P = true) (hx : xokB P = true) (hfl : fidLayoutB P = true)
    (o : Opts) (g : Globals) (r : Reader) (arch : Endian) (hs : (decode P o .full g r).1.success) (F : FileSt)
    (hF : (decode P o .full g r).1.st.file = some F) : encode P arch F ≠ .panic := by
  obtain ⟨h1, h2⟩ := decoded_file_typed P hwf hx hfl o g r hs F hF
  exact encode_no_panic P hwf arch F h1 h2

/-- the instance for the tree under check -/
theorem reencode_never_panics_gen (o : Opts) (g : Globals) (r : Reader) (arch : Endian)
    (hs : (decode Gen.profile o .full g r).1.success) (F : FileSt)
    (hF : (decode Gen.profile o .full g r).1.st.file = some F) : encode Gen.profile arch F ≠ .panic :=
  reencode_never_panics Gen.profile C01.gen_wf gen_xok gen_fid_layout o g r arch hs F hF

set_option maxRecDepth 100000 in
/-- the premises are satisfiable: the 25-byte file of C10, read through any reader that delivers
    its bytes and then EOF, decodes successfully to a File, and `Encode` of that File — in either
    byte order — does not panic -/
example (r : Reader) (hd : r.data = C10.minFile) (hstop : r.stop = .eof) (arch : Endian) :
    ∃ F, (decode Gen.profile {} .full {} r).1.st.file = some F ∧ encode Gen.profile arch F ≠ .panic := by
  have hspec : (decodeSpec Gen.profile {} .full {} C10.minFile .eof).1.success ∧
      (decodeSpec Gen.profile {} .full {} C10.minFile .eof).1.st.file.isSome = true := by decide +kernel
  have hs : (decode Gen.profile {} .full {} r).1.success := by
    rw [decode_out_eq_spec, hd, hstop]; exact hspec.1
  have hf : (decode Gen.profile {} .full {} r).1.st.file.isSome = true := by
    rw [decode_out_eq_spec, hd, hstop]; exact hspec.2
  obtain ⟨F, hF⟩ := Option.isSome_iff_exists.mp hf
  exact ⟨F, hF, reencode_never_panics_gen {} {} r arch hs F hF⟩

end Fit.Props.C07
