import FitProps.C06
import FitProofs.Fixpoint
/-!
  The decidable round-trip domain of C06 (`fileRTB`) is closed under the trip: what
  `Decode (Encode f)` returns — `wireFile`, arrays padded with invalid values — is in the domain
  again.  With `wireSlot_idem` this gives the second-generation fixpoint of C07.
-/
namespace Fit
open Fit.Props.C06

theorem pad_us (pf : PField) (xs : Option (List Nat)) (h : tcArray pf.tcode = true) :
    padVal pf (.us xs) = .us (some (xs.getD [] ++
      List.replicate (pf.length - (xs.getD []).length) (Base.invalidNat (tcBase pf.tcode)))) := by
  unfold padVal; rw [if_pos h]

theorem pad_is (pf : PField) (zs : Option (List Int)) (h : tcArray pf.tcode = true) :
    padVal pf (.is zs) = .is (some (zs.getD [] ++
      List.replicate (pf.length - (zs.getD []).length) ((Base.invalidNat (tcBase pf.tcode) : Nat) : Int))) := by
  unfold padVal; rw [if_pos h]

theorem padded_len {α} (ys : List α) (L : Nat) (a : α) (h : ys.length ≤ L) :
    (ys ++ List.replicate (L - ys.length) a).length ≤ L := by
  simp only [List.length_append, List.length_replicate]; omega

theorem padded_all {α} (ys : List α) (n : Nat) (a : α) (p : α → Bool) (h : ys.all p = true) (ha : p a = true) :
    (ys ++ List.replicate n a).all p = true := by
  rw [List.all_append, h, Bool.true_and, List.all_eq_true]
  intro x hx
  rw [List.eq_of_mem_replicate hx]; exact ha

/-- padded arrays are in the array domain again -/
theorem arrRT_pad (pf : PField) (k : SlotKind) (v : Val) (h : arrRT pf k v = true) : arrRT pf k (padVal pf v) = true := by
  unfold arrRT at h
  split at h
  · simp only [Bool.and_eq_true, decide_eq_true_eq, Bool.or_eq_true, beq_iff_eq] at h
    obtain ⟨⟨⟨⟨h1, h2⟩, h3⟩, h4⟩, h5⟩ := h
    rw [pad_us pf _ h2]
    unfold arrRT
    simp only [Option.getD_some, Bool.and_eq_true, decide_eq_true_eq, Bool.or_eq_true, beq_iff_eq]
    refine ⟨⟨⟨⟨h1, h2⟩, padded_len _ _ _ h3⟩, padded_all _ _ _ _ h4 ?_⟩, h5⟩
    rcases h5 with ((h | h) | h) | h <;> rw [h] <;> decide
  · simp only [Bool.and_eq_true, decide_eq_true_eq, Bool.or_eq_true, beq_iff_eq] at h
    obtain ⟨⟨⟨⟨h1, h2⟩, h3⟩, h4⟩, h5⟩ := h
    rw [pad_us pf _ h2]
    unfold arrRT
    simp only [Option.getD_some, Bool.and_eq_true, decide_eq_true_eq, Bool.or_eq_true, beq_iff_eq]
    refine ⟨⟨⟨⟨h1, h2⟩, padded_len _ _ _ h3⟩, padded_all _ _ _ _ h4 ?_⟩, h5⟩
    rcases h5 with h | h <;> rw [h] <;> decide
  · simp only [Bool.and_eq_true, decide_eq_true_eq, Bool.or_eq_true, beq_iff_eq] at h
    obtain ⟨⟨⟨⟨h1, h2⟩, h3⟩, h4⟩, h5⟩ := h
    rw [pad_us pf _ h2]
    unfold arrRT
    simp only [Option.getD_some, Bool.and_eq_true, decide_eq_true_eq, Bool.or_eq_true, beq_iff_eq]
    refine ⟨⟨⟨⟨h1, h2⟩, padded_len _ _ _ h3⟩, padded_all _ _ _ _ h4 ?_⟩, h5⟩
    rcases h5 with h | h <;> rw [h] <;> decide
  · simp only [Bool.and_eq_true, decide_eq_true_eq, beq_iff_eq] at h
    obtain ⟨⟨⟨⟨h1, h2⟩, h3⟩, h4⟩, h5⟩ := h
    rw [pad_is pf _ h2]
    unfold arrRT
    simp only [Option.getD_some, Bool.and_eq_true, decide_eq_true_eq, beq_iff_eq]
    refine ⟨⟨⟨⟨h1, h2⟩, padded_len _ _ _ h3⟩, padded_all _ _ _ _ h4 ?_⟩, h5⟩
    rw [h5]; decide
  · simp only [Bool.and_eq_true, decide_eq_true_eq, beq_iff_eq] at h
    obtain ⟨⟨⟨⟨h1, h2⟩, h3⟩, h4⟩, h5⟩ := h
    rw [pad_is pf _ h2]
    unfold arrRT
    simp only [Option.getD_some, Bool.and_eq_true, decide_eq_true_eq, beq_iff_eq]
    refine ⟨⟨⟨⟨h1, h2⟩, padded_len _ _ _ h3⟩, padded_all _ _ _ _ h4 ?_⟩, h5⟩
    rw [h5]; decide
  · simp only [Bool.and_eq_true, decide_eq_true_eq, beq_iff_eq] at h
    obtain ⟨⟨⟨⟨h1, h2⟩, h3⟩, h4⟩, h5⟩ := h
    rw [pad_is pf _ h2]
    unfold arrRT
    simp only [Option.getD_some, Bool.and_eq_true, decide_eq_true_eq, beq_iff_eq]
    refine ⟨⟨⟨⟨h1, h2⟩, padded_len _ _ _ h3⟩, padded_all _ _ _ _ h4 ?_⟩, h5⟩
    rw [h5]; decide
  · cases h

theorem padded_nonempty {α} (ys : List α) (L : Nat) (a : α) (hL : 1 ≤ L) :
    (ys ++ List.replicate (L - ys.length) a).isEmpty = false := by
  cases ys with
  | nil =>
    cases L with
    | zero => omega
    | succ n => simp [List.replicate_succ]
  | cons y t => rfl

/-- a padded value that counts as invalid is the value itself -/
theorem padVal_invalid_same (pm : PMsg) (pf : PField) (i : Nat) (v : Val) (hL : 1 ≤ pf.length)
    (h : isInvalidVal pm i (padVal pf v) = true) : padVal pf v = v := by
  cases ha : tcArray pf.tcode with
  | false => exact padVal_scalar pf v ha
  | true =>
    cases v with
    | us xs =>
      rw [pad_us pf xs ha] at h
      simp only [isInvalidVal, padded_nonempty _ _ _ hL] at h
      cases h
    | is zs =>
      rw [pad_is pf zs ha] at h
      simp only [isInvalidVal, padded_nonempty _ _ _ hL] at h
      cases h
    | _ => unfold padVal; rw [if_pos ha]

/-- a message in the domain under its group's definition is, after the trip, in the domain under
    the wired group's definition -/
theorem msgDomB_wire (pm : PMsg) (hmw : msgWF pm = true) (ms : List Msg) (m : Msg) (w w' : PField → Bool)
    (hw : ∀ pf, w pf = onIn pm ms pf) (hw' : ∀ pf, w' pf = onIn pm (ms.map (wireMsg pm ms)) pf)
    (h : msgDomB pm m w = true) : msgDomB pm (wireMsg pm ms m) w' = true := by
  unfold msgDomB at h ⊢
  simp only [Bool.and_eq_true, List.all_eq_true, List.mem_range] at h ⊢
  obtain ⟨h1, h2⟩ := h
  have hfw := (msgWF_bounds pm hmw).2.2.2
  refine ⟨?_, ?_⟩
  · intro pf hp
    have hpf := fieldBySindex_of_mem pm hmw pf hp
    have h1' := h1 pf hp
    rw [wireMsg_getElem?]
    cases hk : pm.layout[pf.sindex]? with
    | none => simp
    | some k =>
      cases hv : m.vals[pf.sindex]? with
      | none => simp
      | some v =>
        rw [hk, hv] at h1'
        simp only [Option.map_some]
        have e : wireVal pm ms pf.sindex v = if onIn pm ms pf then padVal pf v else v := by
          unfold wireVal; rw [hpf]
        rw [e]
        cases ho : onIn pm ms pf with
        | false =>
          rw [hw', onIn_wire_false pm ms pf hpf ho]; rfl
        | true =>
          simp only [↓reduceIte]
          rw [hw pf, ho] at h1'
          simp only [Bool.not_true, Bool.false_or, Bool.or_eq_true, Bool.and_eq_true] at h1'
          rcases h1' with (hv1 | hv1) | ⟨hv1, hv2⟩
          · rw [valRT_pad pf k v hv1, hv1]; simp
          · rw [arrRT_pad pf k v hv1]; simp
          · have hf := hv2
            unfold strFillerB at hf
            simp only [Bool.and_eq_true, beq_iff_eq, Bool.not_eq_true'] at hf
            rw [padVal_scalar pf v hf.1.2, hv1, hv2]; simp
  · intro i hi
    rw [wireMsg_length] at hi
    have h2' := h2 i hi
    rw [wireMsg_getElem?]
    cases hv : m.vals[i]? with
    | none => simp
    | some v =>
      rw [hv] at h2'
      simp only [Option.map_some]
      unfold wireVal
      cases hf : fieldBySindex pm i with
      | none => exact h2'
      | some pf =>
        simp only
        split
        · cases hiv : isInvalidVal pm i (padVal pf v) with
          | false => rfl
          | true =>
            have hL := (fieldWF_facts pm pf (hfw pf (fieldBySindex_mem pm i pf hf))).len1
            have e := padVal_invalid_same pm pf i v hL hiv
            rw [e] at hiv ⊢
            simp only [hiv] at h2'
            simpa using h2'
        · exact h2'

theorem onIn_single (pm : PMsg) (m : Msg) (pf : PField) : onIn pm [m] pf = validInB pm m pf := by
  simp [onIn, validInB]

theorem oneDomB_wire (P : Profile) (hwf : ProfileWF P = true) (m : Msg) (h : oneDomB P m = true) :
    oneDomB P (wire1 P m) = true := by
  unfold oneDomB at h ⊢
  simp only [Bool.and_eq_true] at h ⊢
  obtain ⟨hk, h2⟩ := h
  rw [wire1_num]
  refine ⟨hk, ?_⟩
  cases hpm : P.msg? m.num with
  | none => rw [hpm] at h2; cases h2
  | some pm =>
    rw [hpm] at h2
    simp only
    have e : wire1 P m = wireMsg pm [m] m := by unfold wire1; rw [hpm]
    rw [e]
    exact msgDomB_wire pm (msg?_wf P hwf m.num pm hpm) [m] m _ _ (fun pf => (onIn_single pm m pf).symm)
      (fun pf => by rw [List.map_singleton, onIn_single]) h2

/-- a group in the domain is in the domain after the trip -/
theorem slotDomB_wire_group (P : Profile) (hwf : ProfileWF P = true) (m0 : Msg) (rest : List Msg) (pm : PMsg)
    (hpm : P.msg? m0.num = some pm) (h : slotDomB P (m0 :: rest) = true) :
    slotDomB P ((m0 :: rest).map (wireMsg pm (m0 :: rest))) = true := by
  unfold slotDomB at h
  simp only [Bool.and_eq_true, List.all_eq_true, beq_iff_eq, hpm] at h
  obtain ⟨⟨hk, hnum⟩, h3⟩ := h
  have e : (m0 :: rest).map (wireMsg pm (m0 :: rest)) =
      wireMsg pm (m0 :: rest) m0 :: rest.map (wireMsg pm (m0 :: rest)) := rfl
  rw [e]
  unfold slotDomB
  simp only [wireMsg_num, Bool.and_eq_true, List.all_eq_true, beq_iff_eq, hpm]
  rw [← e]
  refine ⟨⟨hk, ?_⟩, ?_⟩
  · intro m' hm'
    simp only [List.mem_map] at hm'
    obtain ⟨m, hm, rfl⟩ := hm'
    rw [wireMsg_num]; exact hnum m hm
  · intro m' hm'
    simp only [List.mem_map] at hm'
    obtain ⟨m, hm, rfl⟩ := hm'
    exact msgDomB_wire pm (msg?_wf P hwf m0.num pm hpm) (m0 :: rest) m _ _ (fun pf => rfl) (fun pf => rfl) (h3 m hm)

theorem slotDomB_known (P : Profile) (m0 : Msg) (rest : List Msg) (h : slotDomB P (m0 :: rest) = true) :
    ∃ pm, P.msg? m0.num = some pm := by
  unfold slotDomB at h
  simp only [Bool.and_eq_true] at h
  cases hpm : P.msg? m0.num with
  | none => rw [hpm] at h; cases h.2
  | some pm => exact ⟨pm, rfl⟩

theorem slotDomB_wire (P : Profile) (hwf : ProfileWF P = true) (many : Bool) (ms : List Msg)
    (hone : many = false → ms.length ≤ 1) (h : slotDomB P ms = true) : slotDomB P (wireSlot P many ms) = true := by
  cases ms with
  | nil => exact h
  | cons m0 rest =>
    obtain ⟨pm, hpm⟩ := slotDomB_known P m0 rest h
    have hg := slotDomB_wire_group P hwf m0 rest pm hpm h
    unfold wireSlot
    cases many with
    | true => simp only [↓reduceIte, hpm]; exact hg
    | false =>
      simp only [Bool.false_eq_true, ↓reduceIte]
      have hr : rest = [] := by
        have := hone rfl
        simp only [List.length_cons] at this
        exact List.eq_nil_of_length_eq_zero (by omega)
      subst hr
      have e : wire1 P m0 = wireMsg pm [m0] m0 := by unfold wire1; rw [hpm]
      rw [e]; exact hg

/-- **the round-trip domain is closed under the trip** -/
theorem fileRTB_wire (P : Profile) (hwf : ProfileWF P = true) (c : Container) (f : FileSt)
    (hone : ∀ z ∈ c.slots.zip f.slots, z.1.many = false → z.2.length ≤ 1)
    (h : fileRTB P f = true) : fileRTB P (wireFile P c f) = true := by
  unfold fileRTB at h ⊢
  simp only [Bool.and_eq_true, decide_eq_true_eq, List.all_eq_true] at h ⊢
  obtain ⟨⟨⟨⟨⟨⟨⟨h1, h2⟩, h3⟩, h4⟩, h5⟩, h6⟩, h7⟩, h8⟩ := h
  refine ⟨⟨⟨⟨⟨⟨⟨h1, h2⟩, h3⟩, ?_⟩, oneDomB_wire P hwf _ h5⟩, ?_⟩, ?_⟩, ?_⟩
  · show (wire1 P f.fileId).num = mnFileId
    rw [wire1_num]; exact h4
  · show (match f.creator.map (wire1 P) with | some m => oneDomB P m | none => true) = true
    cases hc : f.creator with
    | none => rfl
    | some m => rw [hc] at h6; exact oneDomB_wire P hwf m h6
  · show (match f.tscorr.map (wire1 P) with | some m => oneDomB P m | none => true) = true
    cases hc : f.tscorr with
    | none => rfl
    | some m => rw [hc] at h7; exact oneDomB_wire P hwf m h7
  · intro ms hms
    have hms' : ms ∈ (c.slots.zip f.slots).map fun z => wireSlot P z.1.many z.2 := hms
    simp only [List.mem_map] at hms'
    obtain ⟨z, hz, rfl⟩ := hms'
    exact slotDomB_wire P hwf z.1.many z.2 (hone z hz) (h8 z.2 (List.of_mem_zip hz).2)

theorem wireFile_slots_idem (P : Profile) (c : Container) (f : FileSt) :
    (c.slots.zip (wireFile P c f).slots).map (fun z => wireSlot P z.1.many z.2) = (wireFile P c f).slots := by
  show (c.slots.zip ((c.slots.zip f.slots).map fun z => wireSlot P z.1.many z.2)).map (fun z => wireSlot P z.1.many z.2) =
    (c.slots.zip f.slots).map fun z => wireSlot P z.1.many z.2
  rw [zip_map_zip, List.map_map]
  apply List.map_congr_left
  intro z _
  exact wireSlot_idem P z.1.many z.2

/-- `fileRTB` looks at the header's size, tag and protocol version and at the messages only -/
theorem fileRTB_of_fields (P : Profile) (a b : FileSt)
    (hh : (a.hdr.size = headerSizeNoCRC ∨ a.hdr.size = headerSizeCRC) ∧ a.hdr.dtype = fitTag ∧ a.hdr.proto = b.hdr.proto)
    (e1 : a.fileId = b.fileId) (e2 : a.creator = b.creator) (e3 : a.tscorr = b.tscorr) (e4 : a.slots = b.slots)
    (h : fileRTB P b = true) : fileRTB P a = true := by
  unfold fileRTB at h ⊢
  rw [e1, e2, e3, e4, hh.2.2]
  simp only [Bool.and_eq_true, decide_eq_true_eq] at h ⊢
  obtain ⟨⟨⟨⟨⟨⟨⟨_, _⟩, h3⟩, h4⟩, h5⟩, h6⟩, h7⟩, h8⟩ := h
  exact ⟨⟨⟨⟨⟨⟨⟨hh.1, hh.2.1⟩, h3⟩, h4⟩, h5⟩, h6⟩, h7⟩, h8⟩

/-- **Second generation (C07).** For a File `f` in the round-trip domain whose messages have no
    component fields: let `F1` be what `Decode` returns for `Encode f`. Whatever byte order `F1` is
    encoded with again, if `Encode` accepts it, decoding those bytes succeeds and returns the same
    file_id, file_creator, timestamp_correlation, container and, slot by slot, the same messages as
    `F1`: the first trip's result is a fixed point of the trip. -/
theorem second_trip_fixpoint (P : Profile) (hwf : ProfileWF P = true) (hcont : ∀ c ∈ P.containers, containerOK c = true)
    (arch arch2 : Endian) (f f' : FileSt) (bs : Bytes)
    (h : encode P arch f = .ok bs f') (hdom : fileRTB P f = true) (hsmall : bs.length < 4294967296)
    (hsh : ∀ i, f.cidx = some i → FileShape (P.containers.getD i default) f)
    (hone : ∀ i, f.cidx = some i → ∀ z ∈ (P.containers.getD i default).slots.zip f.slots, z.1.many = false → z.2.length ≤ 1)
    (hnx : ∀ ms ∈ f.slots, ∀ m ∈ ms, expandSet.contains m.num = false)
    (o : Opts) (g : Globals) (tail : Bytes) (stop : Stop) :
    ∃ F1 : FileSt,
      (decodeSpec P o .full g (bs ++ tail) stop).1.success ∧
      (decodeSpec P o .full g (bs ++ tail) stop).1.st.file = some F1 ∧
      ∀ (f2' : FileSt) (bs2 : Bytes), encode P arch2 F1 = .ok bs2 f2' → bs2.length < 4294967296 →
        ∀ (o2 : Opts) (g2 : Globals) (tail2 : Bytes) (stop2 : Stop),
          ∃ F2 : FileSt,
            (decodeSpec P o2 .full g2 (bs2 ++ tail2) stop2).1.success ∧
            (decodeSpec P o2 .full g2 (bs2 ++ tail2) stop2).1.st.file = some F2 ∧
            F2.fileId = F1.fileId ∧ F2.creator = F1.creator ∧ F2.tscorr = F1.tscorr ∧ F2.cidx = F1.cidx ∧
            F2.slots = F1.slots ∧
            (decodeSpec P o2 .full g2 (bs2 ++ tail2) stop2).1.st.glob = g2 := by
  obtain ⟨i, _, hci, _⟩ := decode_encode_content P hwf hcont arch f f' bs h (fileRTB_sound P hwf arch f hdom) hsmall hsh o g tail stop
  obtain ⟨F1, hsucc, hfile, a1, a2, a3, a4, _, _, a7, _, aH⟩ :=
    decode_encode_identity P hwf hcont arch f f' bs h (fileRTB_sound P hwf arch f hdom) hsmall hsh hone hnx o g tail stop
  refine ⟨F1, hsucc, hfile, ?_⟩
  intro f2' bs2 h2 hsmall2 o2 g2 tail2 stop2
  let c := P.containers.getD i default
  have b4 : F1.slots = (wireFile P c f).slots := a7 i hci
  have hshw : FileShape c (wireFile P c f) := (hsh i hci).wire P
  have hci1 : F1.cidx = some i := a4.trans hci
  have hj : ∀ j, F1.cidx = some j → j = i := by
    intro j hj; rw [hci1] at hj; injection hj with hj; exact hj.symm
  -- F1 is in the domain again
  have hdom1 : fileRTB P F1 = true :=
    fileRTB_of_fields P F1 (wireFile P c f) aH a1 a2 a3 b4 (fileRTB_wire P hwf c f (hone i hci) hdom)
  have hsh1 : ∀ j, F1.cidx = some j → FileShape (P.containers.getD j default) F1 := by
    intro j hjc
    rw [hj j hjc]
    refine ⟨?_, ?_, ?_, ?_⟩
    · intro m hm; rw [a2] at hm; exact hshw.creatorNum m hm
    · intro m hm; rw [a3] at hm; exact hshw.tscorrNum m hm
    · rw [b4]; exact hshw.len
    · rw [b4]; exact hshw.nums
  have hslots : (wireFile P c f).slots = (c.slots.zip f.slots).map fun z => wireSlot P z.1.many z.2 := rfl
  have hone1 : ∀ j, F1.cidx = some j → ∀ z ∈ (P.containers.getD j default).slots.zip F1.slots, z.1.many = false → z.2.length ≤ 1 := by
    intro j hjc z hz hm
    rw [hj j hjc, b4, hslots, zip_map_zip] at hz
    simp only [List.mem_map] at hz
    obtain ⟨z0, hz0, rfl⟩ := hz
    simp only at hm ⊢
    rw [wireSlot_length]
    exact hone i hci z0 hz0 hm
  have hnx1 : ∀ ms ∈ F1.slots, ∀ m ∈ ms, expandSet.contains m.num = false := by
    intro ms hms m hm
    rw [b4, hslots] at hms
    simp only [List.mem_map] at hms
    obtain ⟨z0, hz0, rfl⟩ := hms
    have hz2 : z0.2 ∈ f.slots := (List.of_mem_zip hz0).2
    have hn := wireSlot_nums P z0.1.many z0.2 z0.1.msg ((hsh i hci).nums z0 hz0) m hm
    cases hz : z0.2 with
    | nil => rw [hz] at hm; simp [wireSlot] at hm
    | cons m1 rest =>
      have hm1 : m1 ∈ z0.2 := by rw [hz]; exact List.mem_cons_self ..
      have := hnx z0.2 hz2 m1 hm1
      rw [(hsh i hci).nums z0 hz0 m1 hm1] at this
      rw [hn]; exact this
  obtain ⟨F2, hsucc2, hfile2, c1, c2, c3, c4, _, _, c7, c8, _⟩ :=
    decode_encode_identity P hwf hcont arch2 F1 f2' bs2 h2 (fileRTB_sound P hwf arch2 F1 hdom1) hsmall2 hsh1 hone1 hnx1 o2 g2 tail2 stop2
  refine ⟨F2, hsucc2, hfile2, ?_, ?_, ?_, c4, ?_, c8⟩
  · rw [c1, a1, wire1_idem]
  · rw [c2, a2, Option.map_map]
    cases f.creator with
    | none => rfl
    | some m => simp only [Option.map_some, Function.comp_apply, wire1_idem]
  · rw [c3, a3, Option.map_map]
    cases f.tscorr with
    | none => rfl
    | some m => simp only [Option.map_some, Function.comp_apply, wire1_idem]
  · rw [c7 i hci1]
    show (c.slots.zip F1.slots).map (fun z => wireSlot P z.1.many z.2) = F1.slots
    rw [b4]
    exact wireFile_slots_idem P c f

end Fit
