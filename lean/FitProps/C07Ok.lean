import FitProps.C07Fix
import FitProofs.TypedEncode
/-!
  `Encode` does not *fail* on a File of the decidable round-trip domain (C06 `fileRTB`): no
  `writeField` of a domain value returns an error. Together with `encode_no_panic` (typed Files) this
  makes the second `Encode` of C07's fixpoint a consequence instead of a hypothesis.
-/
namespace Fit
open Fit.Props.C06

theorem concatE_no_error (l : List (Except EncErr Bytes)) (h : ∀ r ∈ l, r ≠ .error .error) : concatE l ≠ .error .error := by
  induction l with
  | nil => simp [concatE]
  | cons x xs ih =>
    cases x with
    | error e =>
      simp only [concatE]
      intro he
      cases he
      exact h _ (List.mem_cons_self ..) rfl
    | ok b =>
      simp only [concatE]
      have := ih (fun r hr => h r (List.mem_cons_of_mem _ hr))
      cases hc : concatE xs with
      | ok r => simp
      | error e =>
        rw [hc] at this
        simp only
        intro he
        cases he
        exact this rfl

theorem encodeScalar_u_ok (arch : Endian) (pf : PField) (k : Sc) (n : Nat) (hk : tcKind pf.tcode = .native)
    (hb : tcBase pf.tcode ≠ Base.string) : ∃ b, encodeScalar arch pf k (.u n) = .ok b := by
  unfold encodeScalar; rw [hk]; simp only [hb, ↓reduceIte]; exact ⟨_, rfl⟩

theorem encodeScalar_i_ok (arch : Endian) (pf : PField) (k : Sc) (z : Int) (hk : tcKind pf.tcode = .native)
    (hb : tcBase pf.tcode ≠ Base.string) : ∃ b, encodeScalar arch pf k (.i z) = .ok b := by
  unfold encodeScalar; rw [hk]; simp only [hb, ↓reduceIte]; exact ⟨_, rfl⟩

/-- scalars of the round-trip domain are written without error -/
theorem writeField_valRT_ok (arch : Endian) (pm : PMsg) (pf : PField) (facts : FieldFacts pm pf) (k : SlotKind) (v : Val)
    (h : valRT pf k v = true) :
    ∃ b, writeField arch pf k v = .ok b := by
  unfold valRT at h
  split at h
  · simp only [Bool.and_eq_true, beq_iff_eq, Bool.not_eq_true', decide_eq_true_eq, Bool.or_eq_true] at h
    obtain ⟨⟨⟨hk, ha⟩, _⟩, hb⟩ := h
    unfold writeField; simp only [ha, Bool.not_false, ↓reduceIte]
    exact encodeScalar_u_ok arch pf _ _ hk (by rcases hb with ((h | h) | h) | h <;> rw [h] <;> decide)
  · simp only [Bool.and_eq_true, beq_iff_eq, Bool.not_eq_true', decide_eq_true_eq, Bool.or_eq_true] at h
    obtain ⟨⟨⟨hk, ha⟩, _⟩, hb⟩ := h
    unfold writeField; simp only [ha, Bool.not_false, ↓reduceIte]
    exact encodeScalar_u_ok arch pf _ _ hk (by rcases hb with h | h <;> rw [h] <;> decide)
  · simp only [Bool.and_eq_true, beq_iff_eq, Bool.not_eq_true', decide_eq_true_eq, Bool.or_eq_true] at h
    obtain ⟨⟨⟨hk, ha⟩, _⟩, hb⟩ := h
    unfold writeField; simp only [ha, Bool.not_false, ↓reduceIte]
    exact encodeScalar_u_ok arch pf _ _ hk (by rcases hb with h | h <;> rw [h] <;> decide)
  · simp only [Bool.and_eq_true, beq_iff_eq, Bool.not_eq_true', decide_eq_true_eq] at h
    obtain ⟨⟨⟨hk, ha⟩, _⟩, hb⟩ := h
    unfold writeField; simp only [ha, Bool.not_false, ↓reduceIte]
    exact encodeScalar_i_ok arch pf _ _ hk (by rw [hb]; decide)
  · simp only [Bool.and_eq_true, beq_iff_eq, Bool.not_eq_true', decide_eq_true_eq] at h
    obtain ⟨⟨⟨hk, ha⟩, _⟩, hb⟩ := h
    unfold writeField; simp only [ha, Bool.not_false, ↓reduceIte]
    exact encodeScalar_i_ok arch pf _ _ hk (by rw [hb]; decide)
  · simp only [Bool.and_eq_true, beq_iff_eq, Bool.not_eq_true', decide_eq_true_eq] at h
    obtain ⟨⟨⟨hk, ha⟩, _⟩, hb⟩ := h
    unfold writeField; simp only [ha, Bool.not_false, ↓reduceIte]
    exact encodeScalar_i_ok arch pf _ _ hk (by rw [hb]; decide)
  · -- string
    rename_i b
    simp only [Bool.and_eq_true, beq_iff_eq, Bool.not_eq_true', decide_eq_true_eq] at h
    obtain ⟨⟨⟨⟨⟨⟨hk, ha⟩, hb⟩, _⟩, hlen⟩, _⟩, hutf⟩ := h
    unfold writeField; simp only [ha, Bool.not_false, ↓reduceIte]
    unfold encodeScalar; rw [hk]; simp only [hb, ↓reduceIte]
    unfold encodeString
    have h0 : ¬ pf.length = 0 := by omega
    have hmin : min b.length (pf.length - 1) = b.length := by omega
    simp only [h0, ↓reduceIte, hmin, List.take_length, hutf]
    exact ⟨_, rfl⟩
  · simp only [Bool.and_eq_true, beq_iff_eq, decide_eq_true_eq, Bool.or_eq_true] at h
    obtain ⟨⟨⟨⟨hk, ha⟩, hl⟩, _⟩, hb⟩ := h
    exact ⟨_, writeField_unsigned_short arch pf 1 (some _) ha (by rcases hb with ((h | h) | h) | h <;> rw [h] <;> decide) hk
      (by rcases hb with ((h | h) | h) | h <;> rw [h] <;> rfl) (by simp only [Option.getD_some]; omega)⟩
  · simp only [Bool.and_eq_true, beq_iff_eq, decide_eq_true_eq, Bool.or_eq_true] at h
    obtain ⟨⟨⟨⟨hk, ha⟩, hl⟩, _⟩, hb⟩ := h
    exact ⟨_, writeField_unsigned_short arch pf 2 (some _) ha (by rcases hb with h | h <;> rw [h] <;> decide) hk
      (by rcases hb with h | h <;> rw [h] <;> rfl) (by simp only [Option.getD_some]; omega)⟩
  · simp only [Bool.and_eq_true, beq_iff_eq, decide_eq_true_eq, Bool.or_eq_true] at h
    obtain ⟨⟨⟨⟨hk, ha⟩, hl⟩, _⟩, hb⟩ := h
    exact ⟨_, writeField_unsigned_short arch pf 4 (some _) ha (by rcases hb with h | h <;> rw [h] <;> decide) hk
      (by rcases hb with h | h <;> rw [h] <;> rfl) (by simp only [Option.getD_some]; omega)⟩
  · -- time
    simp only [Bool.and_eq_true, beq_iff_eq, decide_eq_true_eq] at h
    have hk := h.1
    have hkind := facts.kind
    rw [hk] at hkind
    simp only at hkind
    unfold writeField; simp only [hkind.2, Bool.not_false, ↓reduceIte]
    unfold encodeScalar; rw [hk]
    exact ⟨_, rfl⟩
  · simp only [Bool.and_eq_true, beq_iff_eq, decide_eq_true_eq] at h
    have hk := h.1
    have hkind := facts.kind
    rw [hk] at hkind
    simp only at hkind
    unfold writeField; simp only [hkind.2, Bool.not_false, ↓reduceIte]
    unfold encodeScalar; rw [hk]
    exact ⟨_, rfl⟩
  · simp only [Bool.and_eq_true, beq_iff_eq, decide_eq_true_eq] at h
    have hk := h.1
    have hkind := facts.kind
    rw [hk] at hkind
    simp only at hkind
    unfold writeField; simp only [hkind.2, Bool.not_false, ↓reduceIte]
    unfold encodeScalar; rw [hk]
    exact ⟨_, rfl⟩
  · cases h

/-- arrays of the round-trip domain are written without error -/
theorem writeField_arrRT_ok (arch : Endian) (pf : PField) (k : SlotKind) (v : Val) (h : arrRT pf k v = true) :
    ∃ b, writeField arch pf k v = .ok b := by
  unfold arrRT at h
  split at h
  · simp only [Bool.and_eq_true, beq_iff_eq, decide_eq_true_eq, Bool.or_eq_true] at h
    obtain ⟨⟨⟨⟨hk, ha⟩, hl⟩, _⟩, hb⟩ := h
    exact ⟨_, writeField_unsigned_short arch pf 1 _ ha (by rcases hb with ((h | h) | h) | h <;> rw [h] <;> decide) hk
      (by rcases hb with ((h | h) | h) | h <;> rw [h] <;> rfl) hl⟩
  · simp only [Bool.and_eq_true, beq_iff_eq, decide_eq_true_eq, Bool.or_eq_true] at h
    obtain ⟨⟨⟨⟨hk, ha⟩, hl⟩, _⟩, hb⟩ := h
    exact ⟨_, writeField_unsigned_short arch pf 2 _ ha (by rcases hb with h | h <;> rw [h] <;> decide) hk
      (by rcases hb with h | h <;> rw [h] <;> rfl) hl⟩
  · simp only [Bool.and_eq_true, beq_iff_eq, decide_eq_true_eq, Bool.or_eq_true] at h
    obtain ⟨⟨⟨⟨hk, ha⟩, hl⟩, _⟩, hb⟩ := h
    exact ⟨_, writeField_unsigned_short arch pf 4 _ ha (by rcases hb with h | h <;> rw [h] <;> decide) hk
      (by rcases hb with h | h <;> rw [h] <;> rfl) hl⟩
  · simp only [Bool.and_eq_true, beq_iff_eq, decide_eq_true_eq] at h
    obtain ⟨⟨⟨⟨hk, ha⟩, hl⟩, _⟩, hb⟩ := h
    exact ⟨_, writeField_signed_short arch pf 1 _ ha (by rw [hb]; decide) hk (by rw [hb]; rfl) hl⟩
  · simp only [Bool.and_eq_true, beq_iff_eq, decide_eq_true_eq] at h
    obtain ⟨⟨⟨⟨hk, ha⟩, hl⟩, _⟩, hb⟩ := h
    exact ⟨_, writeField_signed_short arch pf 2 _ ha (by rw [hb]; decide) hk (by rw [hb]; rfl) hl⟩
  · simp only [Bool.and_eq_true, beq_iff_eq, decide_eq_true_eq] at h
    obtain ⟨⟨⟨⟨hk, ha⟩, hl⟩, _⟩, hb⟩ := h
    exact ⟨_, writeField_signed_short arch pf 4 _ ha (by rw [hb]; decide) hk (by rw [hb]; rfl) hl⟩
  · cases h

/-- the empty string in a string field is written as zeros -/
theorem writeField_filler_ok (arch : Endian) (pm : PMsg) (pf : PField) (facts : FieldFacts pm pf) (k : SlotKind) (v : Val)
    (h : strFillerB pf k v = true) : ∃ b, writeField arch pf k v = .ok b := by
  unfold strFillerB at h
  simp only [Bool.and_eq_true, beq_iff_eq, Bool.not_eq_true'] at h
  obtain ⟨⟨⟨⟨e1, e2⟩, hk⟩, ha⟩, hb⟩ := h
  subst e1 e2
  unfold writeField; simp only [ha, Bool.not_false, ↓reduceIte]
  unfold encodeScalar; rw [hk]; simp only [hb, ↓reduceIte]
  unfold encodeString
  have h0 : ¬ pf.length = 0 := by have := facts.len1; omega
  simp only [h0, ↓reduceIte, List.length_nil, Nat.zero_min, List.take_nil, List.nil_append, Nat.sub_zero, utf8Valid_zeros]
  exact ⟨_, rfl⟩

theorem mesgBytes_no_error (arch : Endian) (pm : PMsg) (m : Msg) (fs : List PField)
    (h : ∀ pf ∈ fs, ∀ k v, pm.layout[pf.sindex]? = some k → m.vals[pf.sindex]? = some v → ∃ b, writeField arch pf k v = .ok b) :
    mesgBytes arch pm m fs ≠ .error .error := by
  unfold mesgBytes
  have hc : concatE (fs.map fun pf =>
      match pm.layout[pf.sindex]?, m.vals[pf.sindex]? with
      | some k, some v => writeField arch pf k v
      | _, _ => .error .panic) ≠ .error .error := by
    apply concatE_no_error
    intro r hr
    simp only [List.mem_map] at hr
    obtain ⟨pf, hpf, rfl⟩ := hr
    split
    · rename_i k v hk hv
      obtain ⟨b, hb⟩ := h pf hpf k v hk hv
      rw [hb]; simp
    · simp
  intro h
  split at h
  · cases h
  · rename_i e he
    cases h
    exact hc he

/-- what the Boolean domain gives for every field the definition carries: it is written without error -/
theorem msgDomB_writes (arch : Endian) (pm : PMsg) (hmw : msgWF pm = true) (m : Msg) (w : PField → Bool)
    (h : msgDomB pm m w = true) :
    ∀ pf ∈ pm.fields, w pf = true → ∀ k v, pm.layout[pf.sindex]? = some k → m.vals[pf.sindex]? = some v →
      ∃ b, writeField arch pf k v = .ok b := by
  unfold msgDomB at h
  simp only [Bool.and_eq_true, List.all_eq_true] at h
  intro pf hp hw k v hk hv
  have := h.1 pf hp
  rw [hw, hk, hv] at this
  simp only [Bool.not_true, Bool.false_or, Bool.or_eq_true, Bool.and_eq_true] at this
  have facts := fieldWF_facts pm pf ((msgWF_bounds pm hmw).2.2.2 pf hp)
  rcases this with (h1 | h1) | ⟨_, h1⟩
  · exact writeField_valRT_ok arch pm pf facts k v h1
  · exact writeField_arrRT_ok arch pf k v h1
  · exact writeField_filler_ok arch pm pf facts k v h1

theorem encodeOne_no_error (P : Profile) (hwf : ProfileWF P = true) (arch : Endian) (m : Msg) (w : PField → Bool)
    (hd : ∀ pm, P.msg? m.num = some pm → msgDomB pm m w = true ∧ ∀ pf, validInB pm m pf = true → w pf = true) :
    encodeOne P arch m ≠ .error .error := by
  unfold encodeOne
  cases hpm : P.msg? m.num with
  | none => simp
  | some pm =>
    simp only
    split
    · simp
    · cases hfs : encodeMesgDef pm m with
      | none => simp
      | some fs =>
        simp only
        have hmw := msg?_wf P hwf m.num pm hpm
        obtain ⟨hdom, hval⟩ := hd pm hpm
        have := mesgBytes_no_error arch pm m fs (by
          intro pf hpf k v hk hv
          have hv1 := (encodeMesgDef_spec pm m fs hfs).1 pf hpf
          exact msgDomB_writes arch pm hmw m w hdom pf ((encodeMesgDef_mem pm m fs hfs).1 pf hpf)
            (hval pf (by unfold validInB; rw [hv1.2]; rfl)) k v hk hv)
        cases hb : mesgBytes arch pm m fs with
        | ok b => simp
        | error e =>
          rw [hb] at this
          simp only
          intro h; cases h; exact this rfl

theorem mapM_mem {α β} (f : α → Option β) (l : List α) (ys : List β) (h : l.mapM f = some ys) :
    ∀ y ∈ ys, ∃ x ∈ l, f x = some y := by
  induction l generalizing ys with
  | nil =>
    simp only [List.mapM_nil] at h
    cases h
    intro y hy; cases hy
  | cons a l ih =>
    rw [List.mapM_cons] at h
    cases hfa : f a with
    | none => rw [hfa] at h; cases h
    | some b =>
      rw [hfa] at h
      cases hl : l.mapM f with
      | none => rw [hl] at h; cases h
      | some bs =>
        rw [hl] at h
        cases h
        intro y hy
        cases hy with
        | head => exact ⟨a, List.mem_cons_self .., hfa⟩
        | tail _ hy' =>
          obtain ⟨x, hx, hfx⟩ := ih bs hl y hy'
          exact ⟨x, List.mem_cons_of_mem _ hx, hfx⟩

theorem encodeGroup_no_error (P : Profile) (hwf : ProfileWF P = true) (arch : Endian) (ms : List Msg)
    (h : slotDomB P ms = true) : encodeGroup P arch ms ≠ .error .error := by
  cases ms with
  | nil => simp [encodeGroup]
  | cons m0 rest =>
    unfold slotDomB at h
    simp only [Bool.and_eq_true, List.all_eq_true, beq_iff_eq] at h
    obtain ⟨⟨_, _⟩, h3⟩ := h
    unfold encodeGroup
    simp only
    cases hpm : P.msg? m0.num with
    | none => simp
    | some pm =>
      rw [hpm] at h3
      simp only [List.all_eq_true] at h3
      have hmw := msg?_wf P hwf m0.num pm hpm
      simp only
      split
      · simp
      · cases hdefs : (m0 :: rest).mapM (encodeMesgDef pm) with
        | none => simp
        | some defs =>
          simp only
          have hc2 : concatE ((m0 :: rest).map fun m => mesgBytes arch pm m
              (defs.flatten.foldl (fun acc pf => insertField pf acc) [])) ≠ .error .error := by
            apply concatE_no_error
            intro r hr
            simp only [List.mem_map] at hr
            obtain ⟨m, hmem, rfl⟩ := hr
            apply mesgBytes_no_error
            intro pf hpf k v hk hv
            rcases foldl_insertField_mem _ _ _ hpf with hin | hin
            · rw [List.mem_flatten] at hin
              obtain ⟨d, hd, hpd⟩ := hin
              obtain ⟨m', hm', hfm'⟩ := mapM_mem _ _ _ hdefs d hd
              have hv1 := (encodeMesgDef_spec pm m' d hfm').1 pf hpd
              refine msgDomB_writes arch pm hmw m _ (h3 m hmem) pf ((encodeMesgDef_mem pm m' d hfm').1 pf hpd) ?_ k v hk hv
              simp only [List.any_eq_true]
              exact ⟨m', hm', by unfold validInB; rw [hv1.2]; rfl⟩
            · cases hin
          intro hh
          split at hh
          · cases hh
          · rename_i e he
            cases hh
            exact hc2 he

/-- a message written alone out of a slot in the domain -/
theorem encodeOne_slot_no_error (P : Profile) (hwf : ProfileWF P = true) (arch : Endian) (m : Msg) (rest : List Msg)
    (h : slotDomB P (m :: rest) = true) : encodeOne P arch m ≠ .error .error := by
  unfold slotDomB at h
  simp only [Bool.and_eq_true, List.all_eq_true, beq_iff_eq] at h
  obtain ⟨⟨_, _⟩, h3⟩ := h
  apply encodeOne_no_error P hwf arch m (fun pf => (m :: rest).any fun m' =>
    match P.msg? m.num with | some pm => validInB pm m' pf | none => false)
  intro pm hpm
  rw [hpm] at h3
  simp only [List.all_eq_true] at h3
  simp only [hpm]
  refine ⟨h3 m (List.mem_cons_self ..), ?_⟩
  intro pf hv
  simp only [List.any_eq_true]
  exact ⟨m, List.mem_cons_self .., hv⟩

theorem oneDomB_no_error (P : Profile) (hwf : ProfileWF P = true) (arch : Endian) (m : Msg) (h : oneDomB P m = true) :
    encodeOne P arch m ≠ .error .error := by
  unfold oneDomB at h
  simp only [Bool.and_eq_true] at h
  apply encodeOne_no_error P hwf arch m (fun pf => match P.msg? m.num with | some pm => validInB pm m pf | none => false)
  intro pm hpm
  have h2 := h.2
  rw [hpm] at h2
  simp only [hpm]
  exact ⟨h2, fun pf hv => hv⟩

theorem encodeBody_no_error (P : Profile) (hwf : ProfileWF P = true) (arch : Endian) (f : FileSt) (c : Container)
    (hdom : fileRTB P f = true) : encodeBody P arch f c ≠ .error .error := by
  unfold fileRTB at hdom
  simp only [Bool.and_eq_true, decide_eq_true_eq, List.all_eq_true] at hdom
  obtain ⟨⟨⟨⟨⟨⟨⟨_, _⟩, _⟩, _⟩, h5⟩, h6⟩, h7⟩, h8⟩ := hdom
  unfold encodeBody
  apply concatE_no_error
  intro r hr
  simp only [List.mem_append, List.mem_cons, List.mem_map, List.not_mem_nil, or_false] at hr
  rcases hr with (rfl | rfl | rfl) | ⟨z, hz, rfl⟩
  · exact oneDomB_no_error P hwf arch _ h5
  · cases hc : f.creator with
    | none => simp
    | some m => rw [hc] at h6; exact oneDomB_no_error P hwf arch m h6
  · cases hc : f.tscorr with
    | none => simp
    | some m => rw [hc] at h7; exact oneDomB_no_error P hwf arch m h7
  · have hs := h8 z.2 (List.of_mem_zip hz).2
    obtain ⟨cs, ms⟩ := z
    simp only
    split
    · exact encodeGroup_no_error P hwf arch ms hs
    · cases ms with
      | nil => simp
      | cons m rest => exact encodeOne_slot_no_error P hwf arch m rest hs

/-- **`Encode` does not fail on a File of the round-trip domain** whose type selects a container -/
theorem encode_no_error (P : Profile) (hwf : ProfileWF P = true) (arch : Endian) (f : FileSt)
    (hdom : fileRTB P f = true) (hinit : ∃ j, P.initAns (fileTypeOf f) = .container j) :
    (∀ bs f', encode P arch f ≠ .ok bs f') → encode P arch f = .panic := by
  intro hne
  obtain ⟨j, hj⟩ := hinit
  have hb := encodeBody_no_error P hwf arch f
  unfold encode at hne ⊢
  rw [hj] at hne ⊢
  simp only at hne ⊢
  cases hci : f.cidx with
  | none => rfl
  | some i =>
    rw [hci] at hne
    simp only at hne ⊢
    split
    · rfl
    · rename_i hij
      rw [if_neg hij] at hne
      cases hbody : encodeBody P arch f (P.containers.getD i default) with
      | ok body => rw [hbody] at hne; exact absurd rfl (hne _ _)
      | error e =>
        cases e with
        | error => exact absurd hbody (hb _ hdom)
        | panic => rfl

theorem fileTypeOf_congr (a b : FileSt) (h : a.fileId = b.fileId) : fileTypeOf a = fileTypeOf b := by
  unfold fileTypeOf; rw [h]

theorem fileTypeOf_wire1 (P : Profile) (f : FileSt) (F1 : FileSt) (h : F1.fileId = wire1 P f.fileId) :
    fileTypeOf F1 = fileTypeOf f := by
  unfold wire1 at h
  cases hpm : P.msg? f.fileId.num with
  | none => rw [hpm] at h; exact fileTypeOf_congr F1 f h
  | some pm =>
    rw [hpm] at h
    have e1 : fileTypeOf F1 = fileTypeOf { f with fileId := wireMsg pm [f.fileId] f.fileId } := fileTypeOf_congr _ _ h
    rw [e1, fileTypeOf_wire]

theorem encode_ok_init (P : Profile) (arch : Endian) (f f' : FileSt) (bs : Bytes) (h : encode P arch f = .ok bs f') :
    ∃ j, P.initAns (fileTypeOf f) = .container j := by
  unfold encode at h
  cases hia : P.initAns (fileTypeOf f) with
  | format => rw [hia] at h; cases h
  | notsupported => rw [hia] at h; cases h
  | container j => exact ⟨j, rfl⟩

end Fit
