import FitProps.C07Ok
/-!
  `Encode` *fails* on a well-typed File only through a string field (finding D13): every other
  value a decoded File can hold is written without error, provided no message the File can hold has
  a string-array field (`Encode` refuses those; checked on the regenerated profile).
-/
namespace Fit
open Fit.Props.C06

/-- a profile type code with a string slot is the string base type -/
theorem base_index7 : ∀ b : Fin 256, Base.index (Base.decompress b.val) = 7 → Base.decompress b.val = Base.string := by decide +kernel

theorem tcBase_of_sc_s (t : Nat) (h : scOfBase (tcBase t) = some .s) : tcBase t = Base.string := by
  have hb : t % 256 < 256 := Nat.mod_lt _ (by decide)
  have key := base_index7 ⟨t % 256, hb⟩
  apply key
  show Base.index (tcBase t) = 7
  unfold scOfBase at h
  split at h
  all_goals first | assumption | (cases h; done)

theorem tcBase_ne_string_of_sc (t : Nat) (sk : Sc) (h : scOfBase (tcBase t) = some sk) (hne : sk ≠ .s) : tcBase t ≠ Base.string := by
  intro e
  rw [e] at h
  have : scOfBase Base.string = some .s := by decide
  rw [this] at h
  cases h
  exact hne rfl

theorem encodeScalar_native_no_error (arch : Endian) (pf : PField) (k : Sc) (v : Val) (hk : tcKind pf.tcode = .native)
    (hb : tcBase pf.tcode ≠ Base.string) (hv : match v with | .u _ | .i _ | .f _ => True | _ => False) :
    encodeScalar arch pf k v ≠ .error .error := by
  unfold encodeScalar
  rw [hk]
  cases v with
  | u n => simp [hb]
  | i z => simp [hb]
  | f n => simp [hb]
  | _ => cases hv

/-- **`writeField` on a value of the field's Go type fails only for a string that does not re-encode**
    (and for arrays of strings, which no message a File holds has) -/
theorem writeField_typed_no_error (arch : Endian) (pm : PMsg) (pf : PField) (k : SlotKind) (v : Val)
    (facts : FieldFacts pm pf) (hk : pm.layout[pf.sindex]? = some k) (hv : ValOK k v = true)
    (hnsa : ¬ (tcArray pf.tcode = true ∧ tcBase pf.tcode = Base.string))
    (hstr : ∀ b, v = .s b → ∃ bs, encodeString b pf.length = .ok bs) :
    writeField arch pf k v ≠ .error .error := by
  obtain ⟨k', hk1, hk2⟩ := facts.slot
  rw [hk] at hk1
  cases hk1
  have hkind := facts.kind
  unfold slotOfType at hk2
  unfold writeField
  cases hkd : tcKind pf.tcode with
  | native =>
    rw [hkd] at hk2
    simp only at hk2
    cases hs : scOfBase (tcBase pf.tcode) with
    | none => rw [hs] at hk2; cases hk2
    | some sk =>
      rw [hs] at hk2
      simp only at hk2
      cases ha : tcArray pf.tcode with
      | false =>
        rw [ha] at hk2
        simp only [Bool.false_eq_true, ↓reduceIte, Option.some.injEq] at hk2
        subst hk2
        simp only [Bool.not_false, ↓reduceIte]
        cases sk with
        | s =>
          -- a string slot: the base type is string, the value a string
          have hbs := tcBase_of_sc_s pf.tcode hs
          cases v with
          | s b =>
            obtain ⟨bs, hbs2⟩ := hstr b rfl
            unfold encodeScalar
            rw [hkd]
            simp only [hbs, ↓reduceIte, hbs2]
            simp
          | _ => simp [ValOK] at hv
        | u w =>
          have hne := tcBase_ne_string_of_sc pf.tcode (.u w) hs (by simp)
          cases v with
          | u n => exact encodeScalar_native_no_error arch pf _ _ hkd hne trivial
          | _ => simp [ValOK] at hv
        | i w =>
          have hne := tcBase_ne_string_of_sc pf.tcode (.i w) hs (by simp)
          cases v with
          | i n => exact encodeScalar_native_no_error arch pf _ _ hkd hne trivial
          | _ => simp [ValOK] at hv
        | f w =>
          have hne := tcBase_ne_string_of_sc pf.tcode (.f w) hs (by simp)
          cases v with
          | f n => exact encodeScalar_native_no_error arch pf _ _ hkd hne trivial
          | _ => simp [ValOK] at hv
      | true =>
        have hne : tcBase pf.tcode ≠ Base.string := fun e => hnsa ⟨ha, e⟩
        simp only [Bool.not_true, Bool.false_eq_true, ↓reduceIte, hne]
        have hel : ∀ (elems : List Val) (ek : Sc), (∀ e ∈ elems, match e with | .u _ | .i _ | .f _ => True | _ => False) →
            concatE (elems.map (encodeScalar arch pf ek)) ≠ .error .error := by
          intro elems ek he
          apply concatE_no_error
          intro r hr
          simp only [List.mem_map] at hr
          obtain ⟨e, hem, rfl⟩ := hr
          exact encodeScalar_native_no_error arch pf ek e hkd hne (he e hem)
        have hall : ∀ e ∈ (match v with
            | .us (some xs) => xs.map Val.u
            | .is (some xs) => xs.map Val.i
            | .fs (some xs) => xs.map Val.f
            | _ => ([] : List Val)), match e with | .u _ | .i _ | .f _ => True | _ => False := by
          intro e he
          split at he
          · simp only [List.mem_map] at he; obtain ⟨_, _, rfl⟩ := he; trivial
          · simp only [List.mem_map] at he; obtain ⟨_, _, rfl⟩ := he; trivial
          · simp only [List.mem_map] at he; obtain ⟨_, _, rfl⟩ := he; trivial
          · cases he
        intro hcontra
        split at hcontra
        · rename_i e hce
          cases hcontra
          exact hel _ _ (fun e he => hall e (List.mem_of_mem_take he)) hce
        · cases hcontra
  | timeUTC =>
    rw [hkd] at hk2 hkind
    simp only at hk2 hkind
    rw [hkind.2] at hk2
    simp only [Bool.false_eq_true, ↓reduceIte, Option.some.injEq] at hk2
    subst hk2
    simp only [hkind.2, Bool.not_false, ↓reduceIte]
    cases v <;> simp_all [ValOK, encodeScalar]
  | timeLocal =>
    rw [hkd] at hk2 hkind
    simp only at hk2 hkind
    rw [hkind.2] at hk2
    simp only [Bool.false_eq_true, ↓reduceIte, Option.some.injEq] at hk2
    subst hk2
    simp only [hkind.2, Bool.not_false, ↓reduceIte]
    cases v <;> simp_all [ValOK, encodeScalar]
  | lat =>
    rw [hkd] at hk2 hkind
    simp only at hk2 hkind
    rw [hkind.2] at hk2
    simp only [Bool.false_eq_true, ↓reduceIte, Option.some.injEq] at hk2
    subst hk2
    simp only [hkind.2, Bool.not_false, ↓reduceIte]
    cases v <;> simp_all [ValOK, encodeScalar]
  | lng =>
    rw [hkd] at hk2 hkind
    simp only at hk2 hkind
    rw [hkind.2] at hk2
    simp only [Bool.false_eq_true, ↓reduceIte, Option.some.injEq] at hk2
    subst hk2
    simp only [hkind.2, Bool.not_false, ↓reduceIte]
    cases v <;> simp_all [ValOK, encodeScalar]
  | unknown n => rw [hkd] at hkind; exact absurd hkind id

/-- every string the message holds re-encodes (valid UTF-8 after the cut to the field size) -/
def StringsEncode (pm : PMsg) (m : Msg) : Prop :=
  ∀ pf ∈ pm.fields, ∀ b, m.vals[pf.sindex]? = some (.s b) → ∃ bs, encodeString b pf.length = .ok bs

/-- Boolean form of `StringsEncode` -/
def stringsEncodeB (pm : PMsg) (m : Msg) : Bool :=
  pm.fields.all fun pf =>
    match m.vals[pf.sindex]? with
    | some (.s b) => (match encodeString b pf.length with | .ok _ => true | .error _ => false)
    | _ => true

theorem stringsEncodeB_sound (pm : PMsg) (m : Msg) (h : stringsEncodeB pm m = true) : StringsEncode pm m := by
  unfold stringsEncodeB at h
  rw [List.all_eq_true] at h
  intro pf hp b hb
  have := h pf hp
  rw [hb] at this
  simp only at this
  cases he : encodeString b pf.length with
  | ok bs => exact ⟨bs, rfl⟩
  | error e => rw [he] at this; cases this

/-- the message type has no field that is an array of strings (`Encode` refuses those) -/
def noStrArrB (pm : PMsg) : Bool :=
  pm.fields.all fun pf => !(tcArray pf.tcode && tcBase pf.tcode == Base.string)

theorem noStrArrB_sound (pm : PMsg) (h : noStrArrB pm = true) (pf : PField) (hp : pf ∈ pm.fields) :
    ¬ (tcArray pf.tcode = true ∧ tcBase pf.tcode = Base.string) := by
  unfold noStrArrB at h
  rw [List.all_eq_true] at h
  have := h pf hp
  intro ⟨h1, h2⟩
  simp [h1, h2] at this

theorem mesgBytes_typed_no_error (arch : Endian) (pm : PMsg) (hmw : msgWF pm = true) (m : Msg) (hv : ValsOK pm.layout m.vals)
    (hnsa : noStrArrB pm = true) (hse : StringsEncode pm m)
    (fs : List PField) (hfs : ∀ pf ∈ fs, pf ∈ pm.fields) : mesgBytes arch pm m fs ≠ .error .error := by
  unfold mesgBytes
  have hc : concatE (fs.map fun pf =>
      match pm.layout[pf.sindex]?, m.vals[pf.sindex]? with
      | some k, some v => writeField arch pf k v
      | _, _ => .error .panic) ≠ .error .error := by
    apply concatE_no_error
    intro r hr
    simp only [List.mem_map] at hr
    obtain ⟨pf, hpf, rfl⟩ := hr
    have hp := hfs pf hpf
    have facts := fieldWF_facts pm pf ((msgWF_bounds pm hmw).2.2.2 pf hp)
    split
    · rename_i k v hk hvv
      exact writeField_typed_no_error arch pm pf k v facts hk (hv.2 _ k v hk hvv) (noStrArrB_sound pm hnsa pf hp)
        (fun b hb => by subst hb; exact hse pf hp b hvv)
    · simp
  intro h
  split at h
  · cases h
  · rename_i e he
    cases h
    exact hc he

/-- what is asked of one message: its type has no string-array field and its strings re-encode -/
def MsgEncodes (P : Profile) (m : Msg) : Prop :=
  ∀ pm, P.msg? m.num = some pm → noStrArrB pm = true ∧ StringsEncode pm m

theorem encodeOne_typed_no_error (P : Profile) (hwf : ProfileWF P = true) (arch : Endian) (m : Msg) (hm : MsgOK P m)
    (he : MsgEncodes P m) : encodeOne P arch m ≠ .error .error := by
  obtain ⟨pm, hpm, hk, hv⟩ := hm
  have hmw := msg?_wf P hwf m.num pm hpm
  obtain ⟨h1, h2⟩ := he pm hpm
  unfold encodeOne
  rw [hpm]
  simp only
  split
  · simp
  · cases hfs : encodeMesgDef pm m with
    | none => simp
    | some fs =>
      simp only
      have := mesgBytes_typed_no_error arch pm hmw m hv h1 h2 fs (encodeMesgDef_mem pm m fs hfs).1
      cases hb : mesgBytes arch pm m fs with
      | ok b => simp
      | error e =>
        rw [hb] at this
        simp only
        intro h; cases h; exact this rfl

theorem encodeGroup_typed_no_error (P : Profile) (hwf : ProfileWF P = true) (arch : Endian) (ms : List Msg)
    (hm : ∀ m ∈ ms, MsgOK P m) (hnum : ∀ m ∈ ms, ∀ m' ∈ ms, m.num = m'.num) (he : ∀ m ∈ ms, MsgEncodes P m) :
    encodeGroup P arch ms ≠ .error .error := by
  cases ms with
  | nil => simp [encodeGroup]
  | cons m0 rest =>
    obtain ⟨pm, hpm, hk, hv0⟩ := hm m0 (List.mem_cons_self ..)
    have hmw := msg?_wf P hwf m0.num pm hpm
    unfold encodeGroup
    simp only
    rw [hpm]
    simp only
    split
    · simp
    · cases hdefs : (m0 :: rest).mapM (encodeMesgDef pm) with
      | none => simp
      | some defs =>
        simp only
        have hfsm : ∀ pf ∈ defs.flatten.foldl (fun acc pf => insertField pf acc) [], pf ∈ pm.fields := by
          intro pf hp
          rcases foldl_insertField_mem _ _ _ hp with h | h
          · rw [List.mem_flatten] at h
            obtain ⟨d, hd, hpd⟩ := h
            obtain ⟨m', _, hfm'⟩ := mapM_mem _ _ _ hdefs d hd
            exact (encodeMesgDef_mem pm m' d hfm').1 pf hpd
          · cases h
        have hc2 : concatE ((m0 :: rest).map fun m => mesgBytes arch pm m
            (defs.flatten.foldl (fun acc pf => insertField pf acc) [])) ≠ .error .error := by
          apply concatE_no_error
          intro r hr
          simp only [List.mem_map] at hr
          obtain ⟨m, hmem, rfl⟩ := hr
          obtain ⟨pm', hpm', _, hv'⟩ := hm m hmem
          have hn := hnum m hmem m0 (List.mem_cons_self ..)
          rw [hn, hpm] at hpm'
          cases hpm'
          obtain ⟨h1, h2⟩ := he m hmem pm (by rw [hn]; exact hpm)
          exact mesgBytes_typed_no_error arch pm hmw m hv' h1 h2 _ hfsm
        intro hh
        split at hh
        · cases hh
        · rename_i e hee
          cases hh
          exact hc2 hee

/-- every message of the File: file_id, file_creator, timestamp_correlation, the container's -/
def FileEncodes (P : Profile) (f : FileSt) : Prop :=
  MsgEncodes P f.fileId ∧ (∀ m, f.creator = some m → MsgEncodes P m) ∧ (∀ m, f.tscorr = some m → MsgEncodes P m) ∧
  ∀ ms ∈ f.slots, ∀ m ∈ ms, MsgEncodes P m

/-- **`Encode` succeeds on a well-typed File whose strings re-encode** (and whose message types have
    no string-array field): it cannot panic (`encode_no_panic`) and it cannot fail -/
theorem encode_typed_ok (P : Profile) (hwf : ProfileWF P = true) (arch : Endian) (f : FileSt) (hf : FileTyped P f)
    (hc : f.cidx.isSome = true) (he : FileEncodes P f) : ∃ bs f', encode P arch f = .ok bs f' := by
  have hnp := encode_no_panic P hwf arch f hf hc
  obtain ⟨i, hi⟩ := Option.isSome_iff_exists.mp hc
  obtain ⟨e1, e2, e3, e4⟩ := he
  have hbody : encodeBody P arch f (P.containers.getD i default) ≠ .error .error := by
    unfold encodeBody
    apply concatE_no_error
    intro r hr
    simp only [List.cons_append, List.nil_append, List.mem_cons, List.mem_map] at hr
    rcases hr with rfl | rfl | rfl | ⟨⟨cs, ms⟩, hmem, rfl⟩
    · exact encodeOne_typed_no_error P hwf arch _ hf.fid.1 e1
    · cases hcr : f.creator with
      | none => simp
      | some m => exact encodeOne_typed_no_error P hwf arch m (hf.creator m hcr).1 (e2 m hcr)
    · cases hts : f.tscorr with
      | none => simp
      | some m => exact encodeOne_typed_no_error P hwf arch m (hf.tscorr m hts).1 (e3 m hts)
    · have hms : ms ∈ f.slots := (List.of_mem_zip hmem).2
      obtain ⟨j, hj⟩ := List.mem_iff_getElem?.mp hms
      have hso := hf.slots i hi j ms hj
      simp only
      split
      · exact encodeGroup_typed_no_error P hwf arch ms (fun m hm => (hso m hm).1)
          (fun m hm m' hm' => by rw [(hso m hm).2, (hso m' hm').2]) (fun m hm => e4 ms hms m hm)
      · cases ms with
        | nil => simp
        | cons m rest => exact encodeOne_typed_no_error P hwf arch m (hso m (List.mem_cons_self ..)).1 (e4 _ hms m (List.mem_cons_self ..))
  cases he : encode P arch f with
  | ok bs f' => exact ⟨bs, f', rfl⟩
  | panic => exact absurd he hnp
  | error =>
    exfalso
    unfold encode at he
    rw [hf.ctype i hi] at he
    simp only [hi, ne_eq, not_true_eq_false, ↓reduceIte] at he
    cases hb : encodeBody P arch f (P.containers.getD i default) with
    | ok b => rw [hb] at he; cases he
    | error e =>
      cases e with
      | error => exact hbody hb
      | panic => rw [hb] at he; cases he

/-- no message type a File can hold — file_id, file_creator, timestamp_correlation and the element
    types of every container — has a string-array field -/
def heldNoStrArrB (P : Profile) : Bool :=
  ([mnFileId, mnFileCreator, mnTimestampCorrelation] ++ P.containers.flatMap (fun c => c.slots.map (·.msg))).all fun n =>
    match P.msg? n with
    | some pm => noStrArrB pm
    | none => true

theorem heldNoStrArrB_num (P : Profile) (h : heldNoStrArrB P = true) (n : Nat)
    (hn : n ∈ [mnFileId, mnFileCreator, mnTimestampCorrelation] ++ P.containers.flatMap (fun c => c.slots.map (·.msg)))
    (pm : PMsg) (hpm : P.msg? n = some pm) : noStrArrB pm = true := by
  unfold heldNoStrArrB at h
  rw [List.all_eq_true] at h
  have := h n hn
  rw [hpm] at this
  exact this

theorem slot_msg_held (P : Profile) (i j : Nat) :
    ((P.containers.getD i default).slots.getD j default).msg ∈
      [mnFileId, mnFileCreator, mnTimestampCorrelation] ++ P.containers.flatMap (fun c => c.slots.map (·.msg)) := by
  by_cases hi : i < P.containers.length
  · by_cases hj : j < (P.containers.getD i default).slots.length
    · apply List.mem_append_right
      rw [List.mem_flatMap]
      have getD_mem : ∀ {α} [Inhabited α] (l : List α) (k : Nat), k < l.length → l.getD k default ∈ l := by
        intro α _ l k hk
        rw [List.getD_eq_getElem?_getD, List.getElem?_eq_getElem hk]; exact List.getElem_mem hk
      refine ⟨P.containers.getD i default, getD_mem _ _ hi, ?_⟩
      rw [List.mem_map]
      exact ⟨(P.containers.getD i default).slots.getD j default, getD_mem _ _ hj, rfl⟩
    · have : (P.containers.getD i default).slots.getD j default = default := by
        rw [List.getD_eq_getElem?_getD, List.getElem?_eq_none (Nat.le_of_not_lt hj)]; rfl
      rw [this]
      exact List.mem_append_left _ (List.mem_cons_self ..)
  · have : P.containers.getD i default = default := by
      rw [List.getD_eq_getElem?_getD, List.getElem?_eq_none (Nat.le_of_not_lt hi)]; rfl
    rw [this]
    exact List.mem_append_left _ (List.mem_cons_self ..)

/-- for a well-typed File with its container attached, on a profile none of whose held message types
    has a string-array field: `Encode` succeeds as soon as every string in the File re-encodes -/
theorem encode_typed_ok_strings (P : Profile) (hwf : ProfileWF P = true) (hheld : heldNoStrArrB P = true)
    (arch : Endian) (f : FileSt) (hf : FileTyped P f) (hc : f.cidx.isSome = true)
    (hstr : (∀ pm, P.msg? f.fileId.num = some pm → StringsEncode pm f.fileId) ∧
      (∀ m, f.creator = some m → ∀ pm, P.msg? m.num = some pm → StringsEncode pm m) ∧
      (∀ m, f.tscorr = some m → ∀ pm, P.msg? m.num = some pm → StringsEncode pm m) ∧
      (∀ ms ∈ f.slots, ∀ m ∈ ms, ∀ pm, P.msg? m.num = some pm → StringsEncode pm m)) :
    ∃ bs f', encode P arch f = .ok bs f' := by
  obtain ⟨i, hi⟩ := Option.isSome_iff_exists.mp hc
  obtain ⟨s1, s2, s3, s4⟩ := hstr
  apply encode_typed_ok P hwf arch f hf hc
  refine ⟨?_, ?_, ?_, ?_⟩
  · intro pm hpm
    refine ⟨heldNoStrArrB_num P hheld f.fileId.num ?_ pm hpm, s1 pm hpm⟩
    rw [hf.fid.2]; exact List.mem_append_left _ (List.mem_cons_self ..)
  · intro m hm pm hpm
    refine ⟨heldNoStrArrB_num P hheld m.num ?_ pm hpm, s2 m hm pm hpm⟩
    rw [(hf.creator m hm).2]; exact List.mem_append_left _ (by simp)
  · intro m hm pm hpm
    refine ⟨heldNoStrArrB_num P hheld m.num ?_ pm hpm, s3 m hm pm hpm⟩
    rw [(hf.tscorr m hm).2]; exact List.mem_append_left _ (by simp)
  · intro ms hms m hm pm hpm
    refine ⟨heldNoStrArrB_num P hheld m.num ?_ pm hpm, s4 ms hms m hm pm hpm⟩
    obtain ⟨j, hj⟩ := List.mem_iff_getElem?.mp hms
    rw [(hf.slots i hi j ms hj m hm).2]
    exact slot_msg_held P i j

end Fit
