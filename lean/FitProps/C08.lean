import FitModel.Encode
import FitModel.Items
import FitModel.Gen.Profile
/-!
  C08 — decoding and encoding are pure: results do not depend on call history.

  Partial, with a recorded finding (D12).  In the model every entry point is a function of its
  input, the options and `Globals` — the three package-level component accumulators, which are the
  only package-level variables the static analysis finds written on the decode/encode paths
  (`gen_written_globals`, regenerated from the source on every run).  Theorems: nothing but
  expanding a record message with a valid accumulated source touches or reads `Globals`; `Encode`
  does not take `Globals` at all.  `decode_history_counterexample` exhibits the dependence (D12).
  Process freshness and map-iteration randomness are runtime behaviour, exercised by the
  correspondence run (histories, repeats, fresh processes).
-/
namespace Fit.Props.C08
open Fit

/-- the static half of the tie: exactly the three accumulators are written -/
theorem gen_written_globals :
    Gen.writtenGlobals = ["accumuAccumulatedPower", "accumuDistance", "accumuTotalCycles"] := by decide

/-- only record messages can touch the accumulators … -/
theorem expand_other_pure (P : Profile) (m : Msg) (g g2 : Globals) (h : m.num ≠ mnRecord) :
    (expand P m g).2 = g ∧ (expand P m g).1 = (expand P m g2).1 := by
  unfold expand
  split
  · exact ⟨rfl, rfl⟩
  · simp only [h, ↓reduceIte]
    split
    · exact ⟨rfl, rfl⟩
    · split
      · exact ⟨rfl, rfl⟩
      · split <;> exact ⟨rfl, rfl⟩

/-- … and a record message does so only through the three accumulated sources
    (compressed_speed_distance, cycles, compressed_accumulated_power): with all of them invalid
    the expansion neither reads nor writes the accumulators. -/
theorem csd_invalid_pure (pm : PMsg) (m : Msg) (g g2 : Globals)
    (h : ∀ ci, pm.idx "CompressedSpeedDistance" = some ci → m.vals[ci]? = some (.us none)) :
    (expandCsd pm m g).2 = g ∧ (expandCsd pm m g).1 = (expandCsd pm m g2).1 := by
  unfold expandCsd
  split
  · rename_i ci si di hci _ _
    rw [h ci hci]
    exact ⟨rfl, rfl⟩
  · exact ⟨rfl, rfl⟩

theorem cycles_invalid_pure (pm : PMsg) (m : Msg) (g g2 : Globals)
    (h : ∀ ci, pm.idx "Cycles" = some ci → m.getU ci = some 0xFF) :
    (expandCycles pm m g).2 = g ∧ (expandCycles pm m g).1 = (expandCycles pm m g2).1 := by
  unfold expandCycles
  split
  · rename_i ci ti hci _
    rw [h ci hci]
    simp
  · exact ⟨rfl, rfl⟩

theorem power_invalid_pure (pm : PMsg) (m : Msg) (g g2 : Globals)
    (h : ∀ ci, pm.idx "CompressedAccumulatedPower" = some ci → m.getU ci = some 0xFFFF) :
    (expandPower pm m g).2 = g ∧ (expandPower pm m g).1 = (expandPower pm m g2).1 := by
  unfold expandPower
  split
  · rename_i ci ai hci _
    rw [h ci hci]
    simp
  · exact ⟨rfl, rfl⟩

/-- routing a message that is not a record leaves the accumulators alone, whatever the container -/
theorem containerAdd_other_pure (P : Profile) (c : Container) (sl : List (List Msg)) (m : Msg) (g : Globals)
    (h : m.num ≠ mnRecord) : (containerAdd P c sl m g).2 = g := by
  unfold containerAdd
  split
  · rfl
  · simp only
    split
    · exact (expand_other_pure P m g g h).1
    · rfl

/-- D12 (known finding): the same record gives different distances depending on what was decoded
    before in the same process. -/
theorem decode_history_counterexample :
    let rec20 : Msg := ⟨20, (Gen.m20.invalid.set 9 (.us (some [0x34, 0x12, 0x0B])))⟩
    (Gen.m20.idx "CompressedSpeedDistance" = some 9) ∧
    (expand Gen.profile rec20 {}).1 ≠ (expand Gen.profile rec20 { dist := ⟨true, 500, 7, 4095⟩ }).1 := by
  decide +kernel

end Fit.Props.C08
