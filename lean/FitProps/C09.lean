import FitModel.Shared
import FitModel.Gen.Profile
/-!
  C09 — concurrent use on independent inputs is race-free and equals sequential use.

  Partial, stated plainly: the theorems are about the model's shared-access semantics.  The Go
  memory model, the scheduler and the race detector's coverage cannot be expressed in Lean; the
  claim is "proof over the shared-state model, tied to the code by the static write-set fact
  (`gen_written_globals`) and by race-detector runs of the real entry points".
-/
namespace Fit.Props.C09
open Fit.Shared

/-- a step of a call made only of local actions neither reads nor writes shared memory -/
theorem local_step_pure (m m2 : Mem) (c : CallSt) (h : c.todo.all Act.isLocal = true) :
    (stepCall m c).1 = m ∧ (stepCall m c).2 = (stepCall m2 c).2 ∧ (stepCall m c).2.todo.all Act.isLocal = true := by
  unfold stepCall
  cases hc : c.todo with
  | nil => simp [hc] at h ⊢
  | cons a rest =>
    rw [hc] at h
    simp only [List.all_cons, Bool.and_eq_true] at h
    cases a with
    | loc o => exact ⟨rfl, rfl, h.2⟩
    | rd k => simp [Act.isLocal] at h
    | wr k d => simp [Act.isLocal] at h

theorem runAlone_local (m : Mem) (c : CallSt) (fuel : Nat) (h : c.todo.all Act.isLocal = true) :
    (runAlone m c fuel).1 = m ∧ ∀ m2, (runAlone m c fuel).2 = (runAlone m2 c fuel).2 := by
  induction fuel generalizing m c with
  | zero => exact ⟨rfl, fun _ => rfl⟩
  | succ n ih =>
    simp only [runAlone]
    obtain ⟨h1, h2, h3⟩ := local_step_pure m m c h
    rw [h1]
    obtain ⟨i1, i2⟩ := ih m (stepCall m c).2 h3
    refine ⟨i1, fun m2 => ?_⟩
    have e := (local_step_pure m m2 c h).2.1
    have e2 := (local_step_pure m2 m2 c h).1
    rw [e2, ← e]
    exact i2 m2

/-- **Any interleaving of calls that do not touch the accumulators leaves shared memory
    unchanged**: calls cannot influence each other, every schedule is equivalent to running the
    calls one after another. -/
theorem interleaving_keeps_memory (m : Mem) (cs : List CallSt) (sched : List Nat)
    (h : ∀ c ∈ cs, c.todo.all Act.isLocal = true) :
    (run m cs sched).1 = m ∧ ∀ c ∈ (run m cs sched).2, c.todo.all Act.isLocal = true := by
  induction sched generalizing cs with
  | nil => exact ⟨rfl, h⟩
  | cons i sched ih =>
    simp only [run]
    cases hci : cs[i]? with
    | none => exact ih cs h
    | some c =>
      simp only
      have hc : c ∈ cs := List.mem_of_getElem? hci
      obtain ⟨h1, _, h3⟩ := local_step_pure m m c (h c hc)
      rw [h1]
      apply ih
      intro c' hc'
      -- members of the updated list are old members or the stepped call
      have : ∀ (l : List CallSt) (j : Nat) (x : CallSt), c' ∈ updateAt l j x → c' ∈ l ∨ c' = x := by
        intro l
        induction l with
        | nil => intro j x hx; simp [updateAt] at hx
        | cons y ys ihl =>
          intro j x hx
          cases j with
          | zero =>
            simp only [updateAt, List.mem_cons] at hx
            rcases hx with hx | hx
            · exact Or.inr hx
            · exact Or.inl (List.mem_cons_of_mem _ hx)
          | succ j =>
            simp only [updateAt, List.mem_cons] at hx
            rcases hx with hx | hx
            · exact Or.inl (by simp [hx])
            · rcases ihl j x hx with h' | h'
              · exact Or.inl (List.mem_cons_of_mem _ h')
              · exact Or.inr h'
      rcases this cs i _ hc' with h' | h'
      · exact h c' h'
      · rw [h']; exact h3

/-- D12 (known finding): two calls that both accumulate into the same package-level accumulator
    can lose an update — the schedule read₁ read₂ write₁ write₂ ends with a value that neither
    sequential order produces. -/
theorem race_counterexample :
    let c1 : CallSt := { todo := [.rd 0, .wr 0 5] }
    let c2 : CallSt := { todo := [.rd 0, .wr 0 7] }
    (run [0] [c1, c2] [0, 1, 0, 1]).1 = [7] ∧
    (run [0] [c1, c2] [0, 0, 1, 1]).1 = [12] ∧
    (run [0] [c1, c2] [1, 1, 0, 0]).1 = [12] := by decide

/-- the accumulators are the only package-level variables written on the decode/encode paths -/
theorem gen_written_globals :
    Fit.Gen.writtenGlobals = ["accumuAccumulatedPower", "accumuDistance", "accumuTotalCycles"] := by decide

end Fit.Props.C09
