import FitModel.Decode
import FitProofs.Refine
import FitProofs.Frame
import FitProofs.Chain
import FitModel.Gen.Profile
import FitProofs.DecodeEncode
/-!
  C10 — framing: a decode consumes exactly one file, however reads are chunked.

  `decode` runs the decoder program under the buffered interpreter (the model of reader.go's
  `fill`/`readFull` on an arbitrary `io.Reader`); `decodeSpec` runs the same program on the plain
  byte list.  `run_refines` (FitProofs/Refine.lean) relates the two for every program.
-/
namespace Fit.Props.C10
open Fit

/-- The outcome of every entry point (all modes, all option sets) is the outcome of the
    specification run on the byte list: it cannot depend on how the reader splits the stream. -/
theorem decode_eq_spec (P : Profile) (o : Opts) (m : Mode) (g : Globals) (r : Reader) :
    (decode P o m g r).1 =
      (decodeSpec P o m g r.data r.stop).1 := by
  simp only [decode, decodeSpec]
  have := (run_refines (decodeProg P m g) r 0).1
  rw [this]
  have := runSpec_pos_irrelevant (decodeProg P m g)
    { rest := r.data, stop := r.stop, taken := r.pos, frameEnd := 0 }
    { rest := r.data, stop := r.stop, taken := 0 } rfl rfl
  rw [this]

/-- chunk independence: same bytes, same way of ending ⇒ same result, for any two read schedules
    (1-byte reads, odd sizes, reads larger than the internal buffer, data delivered together with
    the end-of-stream error, …) -/
theorem chunk_independent (P : Profile) (o : Opts) (m : Mode) (g : Globals) (r1 r2 : Reader)
    (hd : r1.data = r2.data) (hs : r1.stop = r2.stop) :
    (decode P o m g r1).1 = (decode P o m g r2).1 := by
  rw [decode_eq_spec, decode_eq_spec, hd, hs]

/-- The buffered run never pulls fewer bytes than the specification run consumes, and pulls more
    only while inside the data area — then never beyond its end (`frameEnd` = header size + data
    size after the start): no entry point reads past the frame. -/
theorem never_overreads (P : Profile) (o : Opts) (m : Mode) (g : Globals) (r : Reader) :
    let sp := runSpec (decodeProg P m g) { rest := r.data, stop := r.stop, taken := r.pos, frameEnd := 0 }
    sp.2.taken ≤ (decode P o m g r).2.pos ∧
    ((decode P o m g r).2.pos = sp.2.taken ∨ (decode P o m g r).2.pos ≤ sp.2.frameEnd) := by
  simp only [decode]
  exact (run_refines (decodeProg P m g) r 0).2

/-- `DecodeChained` is a loop of independent decodes on what the previous ones left: its result
    cannot depend on the chunking either. -/
theorem chained_step (P : Profile) (o : Opts) (fuel i : Nat) (acc : List FileSt) (g : Globals) (r : Reader) :
    decodeChained P o (fuel + 1) i acc g r =
      (let res := decode P o .full g r
       if res.1.panic then ⟨acc, none, true, res.1.st.glob, res.2⟩
       else match res.1.err with
         | some c =>
           if res.1.cleanEOF ∧ i ≠ 0 then ⟨acc, none, false, res.1.st.glob, res.2⟩
           else ⟨(match res.1.st.file with | some f => acc ++ [f] | none => acc), some c, false, res.1.st.glob, res.2⟩
         | none =>
           match res.1.st.file with
           | some f => decodeChained P o fuel (i + 1) (acc ++ [f]) res.1.st.glob res.2
           | none => ⟨acc, none, true, res.1.st.glob, res.2⟩) := by
  rfl

/-- **Exact consumption (specification run).** If `Decode` (mode `full`) or `CheckIntegrity`
    (mode `crcOnly`) succeeds on a stream, it has consumed exactly header size + data size + 2
    bytes — the frame declared by the stream's own first bytes — whatever follows in the stream. -/
theorem consumes_exactly (P : Profile) (o : Opts) (m : Mode) (hm : m = .full ∨ m = .crcOnly)
    (g : Globals) (data : Bytes) (stop : Stop)
    (h : (decodeSpec P o m g data stop).1.success) :
    (decodeSpec P o m g data stop).2.taken = frameLen data ∧
    (decodeSpec P o m g data stop).2.rest = data.drop (frameLen data) := by
  unfold decodeSpec at h ⊢
  simp only at h ⊢
  have hs : (runSpec (decodeProg P m g) { rest := data, stop := stop, taken := 0 }).1.success := by
    have := finalize_err o (runSpec (decodeProg P m g) { rest := data, stop := stop, taken := 0 }).1
    unfold Outcome.success at h ⊢
    rw [this.1, this.2.1] at h
    exact h
  have h1 := (prog_consumes_exactly P m hm g _ hs).1
  have h2 := (runSpec_conserve (decodeProg P m g) { rest := data, stop := stop, taken := 0 }).2.2.1
  simp only [Nat.zero_add, Nat.sub_zero] at h1 h2
  exact ⟨h1, by rw [h2, h1]⟩

/-- **Exact consumption (buffered run, any read schedule).** After a successful `Decode` or
    `CheckIntegrity` the reader has delivered exactly the frame: nothing of what follows has been
    pulled, however the reads were chunked. -/
theorem decode_consumes_exactly (P : Profile) (o : Opts) (m : Mode) (hm : m = .full ∨ m = .crcOnly)
    (g : Globals) (r : Reader) (h : (decode P o m g r).1.success) :
    (decode P o m g r).2.pos = r.pos + frameLen r.data := by
  have hr := run_refines (decodeProg P m g) r 0
  simp only at hr
  obtain ⟨e1, e2, e3⟩ := hr
  have hs : (runSpec (decodeProg P m g) { rest := r.data, stop := r.stop, taken := r.pos, frameEnd := 0 }).1.success := by
    simp only [decode] at h
    have := finalize_err o (runBuffered (decodeProg P m g) r).1
    unfold Outcome.success at h ⊢
    rw [this.1, this.2.1, e1] at h
    exact h
  obtain ⟨c1, c2, c3⟩ := prog_consumes_exactly P m hm g _ hs
  simp only at c1 c3
  simp only [decode]
  omega

/-- a non-trivial instance of the hypothesis: a 12-byte header declaring 0 data bytes is consumed
    as a 14-byte frame by `CheckIntegrity` (kernel-evaluated) -/
example : frameLen [12, 0x10, 0, 0, 0, 0, 0, 0, 0x2E, 0x46, 0x49, 0x54, 0xAA, 0xBB, 0xCC] = 14 := by decide

/-- **Whatever follows a file is irrelevant to its decode** (the reason a chain can be decoded
    file by file): a successful decode of `f` gives the same outcome on `f ++ tail` and leaves
    exactly `tail` more. -/
theorem decode_ignores_tail (P : Profile) (o : Opts) (m : Mode) (g : Globals) (f tail : Bytes) (stop : Stop)
    (hs : (decodeSpec P o m g f stop).1.success) :
    (decodeSpec P o m g (f ++ tail) stop).1 = (decodeSpec P o m g f stop).1 ∧
    (decodeSpec P o m g (f ++ tail) stop).2.rest = (decodeSpec P o m g f stop).2.rest ++ tail :=
  spec_append P o m g f tail stop hs

/-- **`DecodeChained` is the chain over the byte list**, whatever the read schedule: files,
    error, panic flag and final package state are those of decoding file after file, each from
    where the previous one ended. -/
theorem chained_eq_chain_over_bytes (P : Profile) (o : Opts) (fuel i : Nat) (acc : List FileSt) (g : Globals)
    (r : Reader) :
    (decodeChained P o fuel i acc g r).files = (decodeChainedSpec P o fuel i acc g r.data r.stop).files ∧
    (decodeChained P o fuel i acc g r).err = (decodeChainedSpec P o fuel i acc g r.data r.stop).err ∧
    (decodeChained P o fuel i acc g r).panic = (decodeChainedSpec P o fuel i acc g r.data r.stop).panic ∧
    (decodeChained P o fuel i acc g r).glob = (decodeChainedSpec P o fuel i acc g r.data r.stop).glob :=
  chained_eq_spec P o fuel i acc g r

/-- **Concatenation.** If `f` alone decodes successfully to file `x` and is exactly one frame long,
    then the chain over `f ++ tail` is `x` followed by the chain over `tail` (continued from the
    package state the first decode left). By induction: the chain over a concatenation of valid
    files is the list of the files decoded one by one. -/
theorem chained_concat (P : Profile) (o : Opts) (fuel i : Nat) (acc : List FileSt) (g : Globals)
    (f tail : Bytes) (stop : Stop) (x : FileSt)
    (hs : (decodeSpec P o .full g f stop).1.success)
    (hlen : f.length = frameLen f)
    (hf : (decodeSpec P o .full g f stop).1.st.file = some x) :
    decodeChainedSpec P o (fuel + 1) i acc g (f ++ tail) stop =
      decodeChainedSpec P o fuel (i + 1) (acc ++ [x]) (decodeSpec P o .full g f stop).1.st.glob tail stop := by
  obtain ⟨a1, a2⟩ := spec_append P o .full g f tail stop hs
  have hrest : (decodeSpec P o .full g f stop).2.rest = [] := by
    rw [(consumes_exactly P o .full (Or.inl rfl) g f stop hs).2]
    simp [← hlen]
  rw [hrest, List.nil_append] at a2
  rw [decodeChainedSpec]
  simp only [a1, a2, hs.1, hs.2, hf, Bool.false_eq_true, ↓reduceIte]

/-- A chain ends silently exactly when the input ends on a file boundary. -/
theorem chained_clean_end (P : Profile) (o : Opts) (fuel i : Nat) (hi : i ≠ 0) (acc : List FileSt) (g : Globals) :
    (decodeChainedSpec P o (fuel + 1) i acc g [] .eof).files = acc ∧
    (decodeChainedSpec P o (fuel + 1) i acc g [] .eof).err = none ∧
    (decodeChainedSpec P o (fuel + 1) i acc g [] .eof).panic = false := by
  rw [decodeChainedSpec]
  have e : decodeSpec P o .full g [] .eof =
      ({ fail (DecSt.init g) .ioerr with cleanEOF := true }, { rest := [], stop := .eof, taken := 0 }) := by
    simp [decodeSpec, decodeProg, decodeHeader, runSpec, finalize, fail, DecSt.init]
  simp [e, fail, hi]

/-! ### the hypotheses are satisfiable (kernel-evaluated on the regenerated profile) -/

/-- a minimal valid file: 12-byte header, file_id definition and data (type = activity), file CRC -/
def minFile : Bytes := [12, 32, 67, 8, 11, 0, 0, 0, 46, 70, 73, 84, 64, 0, 0, 0, 0, 1, 0, 1, 0, 0, 4, 34, 103]

set_option maxRecDepth 100000 in
/-- `minFile` decodes successfully, is exactly one frame long, and holds a file -/
example : (decodeSpec Fit.Gen.profile {} .full {} minFile .eof).1.success ∧ minFile.length = frameLen minFile ∧
    (decodeSpec Fit.Gen.profile {} .full {} minFile .eof).1.st.file.isSome = true := by decide +kernel

set_option maxRecDepth 100000 in
/-- the chain over two copies yields two files and ends silently on the boundary; over two copies
    and one stray byte it yields the two files and an error -/
example :
    (decodeChainedSpec Fit.Gen.profile {} 5 0 [] {} (minFile ++ minFile) .eof).files.length = 2 ∧
    (decodeChainedSpec Fit.Gen.profile {} 5 0 [] {} (minFile ++ minFile) .eof).err = none ∧
    (decodeChainedSpec Fit.Gen.profile {} 5 0 [] {} (minFile ++ minFile ++ [14]) .eof).files.length = 2 ∧
    (decodeChainedSpec Fit.Gen.profile {} 5 0 [] {} (minFile ++ minFile ++ [14]) .eof).err.isSome = true := by
  decide +kernel


/-- **`DecodeHeader`, `DecodeHeaderAndFileID` and `Decode` agree.** On a well-formed frame (any of the
    three header layouts; a file_id definition and data record first; records that fit) that `Decode`
    accepts, with anything after it: `DecodeHeader` succeeds and reports the frame's header;
    `DecodeHeaderAndFileID` succeeds and returns that header together with the message of the first
    data record — the file_id the record machine holds at that point; and the File `Decode` returns
    carries the same header. (`Decode` reports that same file_id unless a later record of the stream
    is a file_id message again, which replaces it — `File.add`; the run compares the two on streams
    with one file_id record.) -/
theorem header_fileid_agree (P : Profile) (o : Opts) (k : HdrKind) (g : Globals) (proto profile : Nat)
    (d0 : DefMsg) (b0 : Bool) (fs dev : List Bytes) (rest : List Item) (tail : Bytes) (stop : Stop) (st1 st2 st' : DecSt)
    (hp : proto < 256) (hp2 : proto / 16 ≤ protoMajorMax)
    (hwf0 : DefnWF d0 b0) (hg : d0.global = mnFileId) (hkn : P.known mnFileId = true)
    (hlen : (serialize (.defn d0 b0 :: .data d0.localT fs dev :: rest)).length < 4294967296)
    (hfit : ItemsFitD P (List.replicate 16 none) (.defn d0 b0 :: .data d0.localT fs dev :: rest))
    (h1 : stepItem P (recState0 P k g proto profile (serialize (.defn d0 b0 :: .data d0.localT fs dev :: rest)).length)
      (.defn d0 b0) = .ok st1)
    (h2 : stepItem P st1 (.data d0.localT fs dev) = .ok st2)
    (hrun : runItems P (afterHeader k g proto profile (serialize (.defn d0 b0 :: .data d0.localT fs dev :: rest)).length).hdr g
      (.defn d0 b0 :: .data d0.localT fs dev :: rest)
      (afterHeader k g proto profile (serialize (.defn d0 b0 :: .data d0.localT fs dev :: rest)).length).crc = .ok st') :
    let data := frameBytesK k proto profile (serialize (.defn d0 b0 :: .data d0.localT fs dev :: rest)) ++ tail
    let H := (afterHeader k g proto profile (serialize (.defn d0 b0 :: .data d0.localT fs dev :: rest)).length).hdr
    (decodeSpec P o .headerOnly g data stop).1.success ∧
    (decodeSpec P o .headerOnly g data stop).1.st.hdr = H ∧
    (decodeSpec P o .fileIdOnly g data stop).1.success ∧
    (decodeSpec P o .fileIdOnly g data stop).1.st.file.map (·.hdr) = some H ∧
    (decodeSpec P o .fileIdOnly g data stop).1.st.file.map (·.fileId) = st2.file.map (·.fileId) ∧
    (decodeSpec P o .full g data stop).1.success ∧
    (decodeSpec P o .full g data stop).1.st.file.map (·.hdr) = some H := by
  intro data H
  have key : ∀ (out : Outcome), (finalize o out).st.hdr = out.st.hdr ∧
      (finalize o out).st.file.map (·.hdr) = out.st.file.map (·.hdr) ∧
      (finalize o out).st.file.map (·.fileId) = out.st.file.map (·.fileId) := by
    intro out
    cases hf : out.st.file with
    | none =>
      unfold finalize
      split
      · simp [hf]
      · simp [hf]
    | some F =>
      obtain ⟨F', hF', hs, _⟩ := finalize_content o out F hf
      refine ⟨?_, ?_, ?_⟩
      · unfold finalize; split <;> rfl
      · rw [hF']; simp only [Option.map_some]; rw [hs.1]
      · rw [hF']; simp only [Option.map_some]; rw [hs.2.2.1]
  have e1 := decode_frame_header_only P o k g proto profile (serialize (.defn d0 b0 :: .data d0.localT fs dev :: rest)) tail stop hp hp2
  have e2 := decode_frame_fileid_only P o k g proto profile d0 b0 fs dev rest tail stop st1 st2 hp hp2 hwf0 hg hkn hlen hfit h1 h2
  have e3 := decode_frame_ok P o k g proto profile d0 b0 fs dev rest tail stop st' hp hp2 hwf0 hg hkn hlen hfit hrun
  have hf2 : st2.fhdr = some H := by
    rw [stepItem_fhdr P st1 st2 _ h2, stepItem_fhdr P _ st1 _ h1]
    rfl
  have hf' : st'.fhdr = some H := runItems_fhdr P _ g _ _ st' hrun
  refine ⟨?_, ?_, ?_, ?_, ?_, ?_, ?_⟩
  · show (decodeSpec P o .headerOnly g data stop).1.success
    rw [e1]; exact finalize_okOut_success o _
  · show (decodeSpec P o .headerOnly g data stop).1.st.hdr = H
    rw [e1, (key _).1]; rfl
  · show (decodeSpec P o .fileIdOnly g data stop).1.success
    rw [e2]; exact finalize_okOut_success o _
  · show (decodeSpec P o .fileIdOnly g data stop).1.st.file.map (·.hdr) = some H
    rw [e2, (key _).2.1]; exact hf2
  · show (decodeSpec P o .fileIdOnly g data stop).1.st.file.map (·.fileId) = st2.file.map (·.fileId)
    rw [e2, (key _).2.2]; rfl
  · show (decodeSpec P o .full g data stop).1.success
    rw [e3]; exact finalize_okOut_success o _
  · show (decodeSpec P o .full g data stop).1.st.file.map (·.hdr) = some H
    rw [e3, (key _).2.1]
    simp only [okOut, Option.map_map]
    exact hf'

end Fit.Props.C10
