import FitModel.Decode
import FitProofs.Refine
/-!
  C10 — framing: a decode consumes exactly one file, however reads are chunked.

  `decode` runs the decoder program under the buffered interpreter (the model of reader.go's
  `fill`/`readFull` on an arbitrary `io.Reader`); `decodeSpec` runs the same program on the plain
  byte list.  `run_refines` (FitProofs/Refine.lean) relates the two for every program.
-/
namespace Fit.Props.C10
open Fit

/-- The outcome of every entry point (all modes, all option sets) is the outcome of the
    specification run on the byte list: it cannot depend on how the reader splits the stream. -/
theorem decode_eq_spec (P : Profile) (o : Opts) (m : Mode) (g : Globals) (r : Reader) :
    (decode P o m g r).1 =
      (decodeSpec P o m g r.data r.stop).1 := by
  simp only [decode, decodeSpec]
  have := (run_refines (decodeProg P m g) r 0).1
  rw [this]
  have := runSpec_pos_irrelevant (decodeProg P m g)
    { rest := r.data, stop := r.stop, taken := r.pos, frameEnd := 0 }
    { rest := r.data, stop := r.stop, taken := 0 } rfl rfl
  rw [this]

/-- chunk independence: same bytes, same way of ending ⇒ same result, for any two read schedules
    (1-byte reads, odd sizes, reads larger than the internal buffer, data delivered together with
    the end-of-stream error, …) -/
theorem chunk_independent (P : Profile) (o : Opts) (m : Mode) (g : Globals) (r1 r2 : Reader)
    (hd : r1.data = r2.data) (hs : r1.stop = r2.stop) :
    (decode P o m g r1).1 = (decode P o m g r2).1 := by
  rw [decode_eq_spec, decode_eq_spec, hd, hs]

/-- The buffered run never pulls fewer bytes than the specification run consumes, and pulls more
    only while inside the data area — then never beyond its end (`frameEnd` = header size + data
    size after the start): no entry point reads past the frame. -/
theorem never_overreads (P : Profile) (o : Opts) (m : Mode) (g : Globals) (r : Reader) :
    let sp := runSpec (decodeProg P m g) { rest := r.data, stop := r.stop, taken := r.pos, frameEnd := 0 }
    sp.2.taken ≤ (decode P o m g r).2.pos ∧
    ((decode P o m g r).2.pos = sp.2.taken ∨ (decode P o m g r).2.pos ≤ sp.2.frameEnd) := by
  simp only [decode]
  exact (run_refines (decodeProg P m g) r 0).2

/-- `DecodeChained` is a loop of independent decodes on what the previous ones left: its result
    cannot depend on the chunking either. -/
theorem chained_step (P : Profile) (o : Opts) (fuel i : Nat) (acc : List FileSt) (g : Globals) (r : Reader) :
    decodeChained P o (fuel + 1) i acc g r =
      (let res := decode P o .full g r
       if res.1.panic then ⟨acc, none, true, res.1.st.glob, res.2⟩
       else match res.1.err with
         | some c =>
           if res.1.st.cleanEOF ∧ i ≠ 0 then ⟨acc, none, false, res.1.st.glob, res.2⟩
           else ⟨(match res.1.st.file with | some f => acc ++ [f] | none => acc), some c, false, res.1.st.glob, res.2⟩
         | none =>
           match res.1.st.file with
           | some f => decodeChained P o fuel (i + 1) (acc ++ [f]) res.1.st.glob res.2
           | none => ⟨acc, none, true, res.1.st.glob, res.2⟩) := by
  rfl

end Fit.Props.C10
