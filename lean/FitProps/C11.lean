import FitModel.Decode
import FitProofs.Refine
import FitProofs.Frame
import FitProofs.Chain
import FitProofs.PartialFile
import FitProps.C01
/-!
  C11 — truncation and read faults never yield silent success.
-/
namespace Fit.Props.C11
open Fit

/-- a failed read inside the data area is never reported as a clean `io.EOF`: the reader ending
    gives "unexpected EOF", a reader error is passed on, exhausting the declared data size is a
    format error -/
theorem failed_buffered_read_is_error (e : RdStop) :
    bufErr e ≠ .eof ∧ (e = .eof → bufErr e = .ueof) ∧ (e = .fault → bufErr e = .fault) ∧
    (e = .limit → bufErr e = .format) := by
  cases e <;> simp [bufErr]

/-- every early exit of the record phase is an error or a panic, never a success -/
theorem early_exit_not_success (e : ErrExit) :
    e.toOutcome.err.isSome = true ∨ e.toOutcome.panic = true := by
  unfold ErrExit.toOutcome
  cases e.err <;> simp [fail, panicOut]

/-- The stream ending or failing while the trailing CRC is read is an error. -/
theorem crc_read_failure_is_error (st : DecSt) (s : SpecSt) (h : s.rest.length < 2) :
    (runSpecT (checkCRC st) s).1.err.isSome = true := by
  unfold checkCRC
  simp only [runSpecT]
  have : ¬ (2 ≤ s.rest.length) := by omega
  simp only [this, ↓reduceIte]
  cases s.stop <;> simp [fail]

/-- `DecodeChained` stops without error only on a clean end of input exactly on a file boundary
    (the reader ends before the first header byte of a file that is not the first); any other
    failing decode is reported, with the partial file appended. -/
theorem chained_reports_errors (P : Profile) (o : Opts) (fuel i : Nat) (acc : List FileSt) (g : Globals)
    (r : Reader) (c : ErrClass)
    (hp : (decode P o .full g r).1.panic = false)
    (he : (decode P o .full g r).1.err = some c)
    (hb : ¬ ((decode P o .full g r).1.cleanEOF = true ∧ i ≠ 0)) :
    (decodeChained P o (fuel + 1) i acc g r).err = some c := by
  simp only [decodeChained, hp, he, Bool.false_eq_true, ↓reduceIte]
  simp [hb]

theorem chained_clean_end (P : Profile) (o : Opts) (fuel i : Nat) (acc : List FileSt) (g : Globals)
    (r : Reader) (c : ErrClass)
    (hp : (decode P o .full g r).1.panic = false)
    (he : (decode P o .full g r).1.err = some c)
    (hb : (decode P o .full g r).1.cleanEOF = true ∧ i ≠ 0) :
    (decodeChained P o (fuel + 1) i acc g r).err = none ∧
    (decodeChained P o (fuel + 1) i acc g r).files = acc := by
  simp only [decodeChained, hp, he, Bool.false_eq_true, ↓reduceIte]
  simp [hb]

/-- **A stream shorter than the frame it declares is never a success**, for `Decode` and
    `CheckIntegrity`, whether the stream ends with EOF or with a reader error: truncation
    cannot be silent. -/
theorem short_input_never_succeeds (P : Profile) (o : Opts) (m : Mode) (hm : m = .full ∨ m = .crcOnly)
    (g : Globals) (data : Bytes) (stop : Stop) (hshort : data.length < frameLen data) :
    ¬ (decodeSpec P o m g data stop).1.success := by
  intro h
  unfold decodeSpec at h
  simp only at h
  have hs : (runSpec (decodeProg P m g) { rest := data, stop := stop, taken := 0 }).1.success := by
    have := finalize_err o (runSpec (decodeProg P m g) { rest := data, stop := stop, taken := 0 }).1
    unfold Outcome.success at h ⊢
    rw [this.1, this.2.1] at h
    exact h
  have h1 := (prog_consumes_exactly P m hm g _ hs).1
  have h2 := (runSpec_conserve (decodeProg P m g) { rest := data, stop := stop, taken := 0 }).1
  simp only [Nat.zero_add] at h1 h2
  omega

theorem frameLen_take (full : Bytes) (k : Nat) (hk : 8 ≤ k) : frameLen (full.take k) = frameLen full := by
  unfold frameLen
  have e1 : (full.take k).headD 0 = full.headD 0 := by
    cases full with
    | nil => simp
    | cons x xs =>
      cases k with
      | zero => omega
      | succ k => rfl
  have e2 : ((full.take k).drop 4).take 4 = (full.drop 4).take 4 := by
    rw [List.drop_take, List.take_take]
    congr 1
    omega
  rw [e1, e2]

/-- **Every cut is an error.** Cutting a stream anywhere before the end of the frame it
    declares (`k < frameLen full`) makes `Decode` and `CheckIntegrity` fail, at every one of the
    cut offsets and for both ways of ending (EOF, reader error). -/
theorem cut_is_error (P : Profile) (o : Opts) (m : Mode) (hm : m = .full ∨ m = .crcOnly)
    (g : Globals) (full : Bytes) (k : Nat) (stop : Stop) (hk : k < frameLen full) :
    ¬ (decodeSpec P o m g (full.take k) stop).1.success := by
  intro h
  unfold decodeSpec at h
  simp only at h
  have hs : (runSpec (decodeProg P m g) { rest := full.take k, stop := stop, taken := 0 }).1.success := by
    have := finalize_err o (runSpec (decodeProg P m g) { rest := full.take k, stop := stop, taken := 0 }).1
    unfold Outcome.success at h ⊢
    rw [this.1, this.2.1] at h
    exact h
  obtain ⟨h1, h14, _⟩ := prog_consumes_exactly P m hm g _ hs
  have h2 := (runSpec_conserve (decodeProg P m g) { rest := full.take k, stop := stop, taken := 0 }).1
  simp only [Nat.zero_add] at h1 h2 h14
  have hlen : (full.take k).length ≤ k := by rw [List.length_take]; omega
  by_cases h8 : 8 ≤ k
  · rw [frameLen_take full k h8] at h1
    omega
  · omega

/-- The same for the real, buffered run under any read schedule (by refinement). -/
theorem cut_is_error_buffered (P : Profile) (o : Opts) (m : Mode) (hm : m = .full ∨ m = .crcOnly)
    (g : Globals) (r : Reader) (full : Bytes) (k : Nat) (hd : r.data = full.take k) (hk : k < frameLen full) :
    ¬ (decode P o m g r).1.success := by
  intro h
  have e : (decode P o m g r).1 = (decodeSpec P o m g r.data r.stop).1 := by
    simp only [decode, decodeSpec]
    have := (run_refines (decodeProg P m g) r 0).1
    rw [this]
    have := runSpec_pos_irrelevant (decodeProg P m g)
      { rest := r.data, stop := r.stop, taken := r.pos, frameEnd := 0 }
      { rest := r.data, stop := r.stop, taken := 0 } rfl rfl
    rw [this]
  rw [e, hd] at h
  exact cut_is_error P o m hm g full k r.stop hk h

/-- **A chain cut inside a file is reported.** If what is left of the stream is shorter than the
    frame it declares — and is not the clean end (no bytes left and EOF) — `DecodeChained` returns
    an error (or panics); it never returns silently. In particular an empty stream is an error for
    the first file, and a reader error is never swallowed, even exactly on a file boundary. -/
theorem chained_cut_is_error (P : Profile) (o : Opts) (fuel i : Nat) (acc : List FileSt) (g : Globals)
    (d : Bytes) (stop : Stop) (hshort : d.length < frameLen d)
    (hne : d ≠ [] ∨ stop = .fault ∨ i = 0) :
    (decodeChainedSpec P o (fuel + 1) i acc g d stop).err.isSome = true ∨
    (decodeChainedSpec P o (fuel + 1) i acc g d stop).panic = true := by
  rw [decodeChainedSpec]
  by_cases hp : (decodeSpec P o .full g d stop).1.panic = true
  · simp [hp]
  · simp only [hp, Bool.false_eq_true, ↓reduceIte]
    cases he : (decodeSpec P o .full g d stop).1.err with
    | none =>
      exfalso
      exact spec_short_not_success P o .full (Or.inl rfl) g d stop hshort ⟨he, by simpa using hp⟩
    | some c =>
      simp only
      by_cases hc : (decodeSpec P o .full g d stop).1.cleanEOF = true ∧ i ≠ 0
      · exfalso
        obtain ⟨h1, h2⟩ := spec_cleanEOF P o .full g d stop hc.1
        rcases hne with h | h | h
        · exact h h1
        · rw [h2] at h; cases h
        · exact hc.2 h
      · simp [hc]

/-- **A cut inside the header is an error for every entry point** (DecodeHeader and
    DecodeHeaderAndFileID included): no mode succeeds on fewer bytes than the header size the first
    byte declares, nor on fewer than 12. -/
theorem header_cut_is_error (P : Profile) (o : Opts) (m : Mode) (g : Globals) (data : Bytes) (stop : Stop)
    (h : data.length < 12 ∨ data.length < (data.headD 0).toNat) :
    ¬ (decodeSpec P o m g data stop).1.success := by
  intro hs
  have hsp := spec_success_of P o m g data stop hs
  unfold decodeProg at hsp
  obtain ⟨st', size, hsz, hlen, hsize, _⟩ := decodeHeader_success _ _ _ hsp
  simp only at hlen hsize
  rcases h with h | h
  · rcases hsz with rfl | rfl <;> omega
  · omega

/-- `DecodeHeader` consumes exactly the header -/
theorem header_only_consumes_header (P : Profile) (o : Opts) (g : Globals) (data : Bytes) (stop : Stop)
    (hs : (decodeSpec P o .headerOnly g data stop).1.success) :
    (decodeSpec P o .headerOnly g data stop).2.taken = (data.headD 0).toNat := by
  have hsp := spec_success_of P o .headerOnly g data stop hs
  unfold decodeSpec
  simp only
  unfold decodeProg at hsp ⊢
  obtain ⟨st', size, hsz, hlen, hsize, _, _, _, heq⟩ := decodeHeader_success _ _ _ hsp
  rw [heq]
  simp only [runSpec, Nat.zero_add]
  exact hsize

/-! ### the File returned with the error -/

/-- **The partial File holds exactly the complete messages.** Take a frame as a FIT writer lays it
    out (a header of any of the three kinds readers accept, declaring the full record area, file_id definition and data record, further
    records) and cut it inside a record — after the complete records `done` and `j` bytes of the next
    record — ending the stream there with EOF or with a reader error, under any read schedule.
    If the item machine accepts the complete records, `Decode` returns an error, does not panic, and
    the File it returns has the file_id, file_creator, timestamp_correlation, container and slots
    (every message of every complete record, nothing of the cut one) that the item machine holds
    after `done`; the accumulators too. -/
theorem partial_file_on_cut_spec (P : Profile) (hwf : ProfileWF P = true) (o : Opts) (k : HdrKind) (g : Globals) (proto profile : Nat)
    (d0 : DefMsg) (b0 : Bool) (fs dev : List Bytes) (done : List Item) (it : Item) (more : List Item) (j : Nat)
    (data : Bytes) (stop : Stop) (st1 : DecSt)
    (hp : proto < 256) (hp2 : proto / 16 ≤ protoMajorMax)
    (hwf0 : DefnWF d0 b0) (hg : d0.global = mnFileId) (hkn : P.known mnFileId = true)
    (hlen : (serialize (.defn d0 b0 :: .data d0.localT fs dev :: (done ++ it :: more))).length < 4294967296)
    (hfit : ItemsFitD P (List.replicate 16 none) (.defn d0 b0 :: .data d0.localT fs dev :: (done ++ it :: more)))
    (hrun : runItems P (afterHeader k g proto profile
      (serialize (.defn d0 b0 :: .data d0.localT fs dev :: (done ++ it :: more))).length).hdr g
      (.defn d0 b0 :: .data d0.localT fs dev :: done)
      (afterHeader k g proto profile
      (serialize (.defn d0 b0 :: .data d0.localT fs dev :: (done ++ it :: more))).length).crc = .ok st1)
    (hj : j < (serializeItem it).length)
    (hdata : data = (frameBytesK k proto profile (serialize (.defn d0 b0 :: .data d0.localT fs dev :: (done ++ it :: more)))).take
      (k.size + ((serialize (.defn d0 b0 :: .data d0.localT fs dev :: done)).length + j))) :
    (decodeSpec P o .full g data stop).1.err.isSome = true ∧ (decodeSpec P o .full g data stop).1.panic = false ∧
    (decodeSpec P o .full g data stop).1.st.glob = st1.glob ∧
    ∀ F1, st1.file = some F1 → ∃ F', (decodeSpec P o .full g data stop).1.st.file = some F' ∧ F'.sameContent F1 := by
  rw [hdata]
  have hser : serialize (.defn d0 b0 :: .data d0.localT fs dev :: (done ++ it :: more)) =
      serialize (.defn d0 b0 :: .data d0.localT fs dev :: done) ++ (serializeItem it ++ serialize more) := by
    have : (Item.defn d0 b0 :: Item.data d0.localT fs dev :: (done ++ it :: more)) =
        (Item.defn d0 b0 :: Item.data d0.localT fs dev :: done) ++ it :: more := rfl
    rw [this, serialize_append, serialize_cons it more]
  have hk : (serialize (.defn d0 b0 :: .data d0.localT fs dev :: done)).length + j ≤
      (serialize (.defn d0 b0 :: .data d0.localT fs dev :: (done ++ it :: more))).length := by
    rw [hser]; simp only [List.length_append]; omega
  rw [frameBytes_take _ _ _ _ _ hk]
  have htake : (serialize (.defn d0 b0 :: .data d0.localT fs dev :: (done ++ it :: more))).take
      ((serialize (.defn d0 b0 :: .data d0.localT fs dev :: done)).length + j) =
      serialize (.defn d0 b0 :: .data d0.localT fs dev :: done) ++ (serializeItem it).take j := by
    rw [hser, List.take_append, Nat.add_sub_cancel_left,
      List.take_of_length_le (by omega : (serialize (.defn d0 b0 :: .data d0.localT fs dev :: done)).length ≤ _),
      List.take_append_of_le_length (by omega)]
  rw [htake]
  obtain ⟨e, he, hfe, _⟩ := decode_cut_partial P o k g proto profile d0 b0 fs dev done it more j stop st1 hp hp2 hwf0 hg hkn
    _ rfl hlen hfit hrun hj
  have hnp := C01.decodeSpec_never_panics P hwf o .full g (u8 k.size :: (hdrTail k proto profile
      (serialize (.defn d0 b0 :: .data d0.localT fs dev :: (done ++ it :: more))).length ++
      (serialize (.defn d0 b0 :: .data d0.localT fs dev :: done) ++ (serializeItem it).take j))) stop
  rw [he] at hnp ⊢
  have hfin := finalize_err o e.toOutcome
  have hst : e.toOutcome.st = e.st := by
    unfold ErrExit.toOutcome
    cases e.err <;> rfl
  have herr : e.err.isSome = true := by
    cases hee : e.err with
    | some c => rfl
    | none =>
      rw [hfin.2.1] at hnp
      unfold ErrExit.toOutcome at hnp
      rw [hee] at hnp
      cases hnp
  have hf : e.st.file = st1.file := congrArg Prod.fst hfe
  have hg' : e.st.glob = st1.glob := congrArg Prod.snd hfe
  refine ⟨?_, hnp, ?_, ?_⟩
  · rw [hfin.1]
    unfold ErrExit.toOutcome
    cases hee : e.err with
    | some c => rfl
    | none => rw [hee] at herr; cases herr
  · cases hfile : e.toOutcome.st.file with
    | none =>
      unfold finalize
      split
      · rw [hst]; exact hg'
      · show e.toOutcome.st.glob = st1.glob
        rw [hst]; exact hg'
    | some F =>
      obtain ⟨_, _, _, h3⟩ := finalize_content o e.toOutcome F hfile
      rw [h3, hst]; exact hg'
  · intro F1 hF1
    have : e.toOutcome.st.file = some F1 := by rw [hst, hf, hF1]
    obtain ⟨F', h1, h2, _⟩ := finalize_content o e.toOutcome F1 this
    exact ⟨F', h1, h2⟩

theorem partial_file_on_cut (P : Profile) (hwf : ProfileWF P = true) (o : Opts) (k : HdrKind) (g : Globals) (proto profile : Nat)
    (d0 : DefMsg) (b0 : Bool) (fs dev : List Bytes) (done : List Item) (it : Item) (more : List Item) (j : Nat)
    (r : Reader) (st1 : DecSt)
    (hp : proto < 256) (hp2 : proto / 16 ≤ protoMajorMax)
    (hwf0 : DefnWF d0 b0) (hg : d0.global = mnFileId) (hkn : P.known mnFileId = true)
    (hlen : (serialize (.defn d0 b0 :: .data d0.localT fs dev :: (done ++ it :: more))).length < 4294967296)
    (hfit : ItemsFitD P (List.replicate 16 none) (.defn d0 b0 :: .data d0.localT fs dev :: (done ++ it :: more)))
    (hrun : runItems P (afterHeader k g proto profile
      (serialize (.defn d0 b0 :: .data d0.localT fs dev :: (done ++ it :: more))).length).hdr g
      (.defn d0 b0 :: .data d0.localT fs dev :: done)
      (afterHeader k g proto profile
      (serialize (.defn d0 b0 :: .data d0.localT fs dev :: (done ++ it :: more))).length).crc = .ok st1)
    (hj : j < (serializeItem it).length)
    (hdata : r.data = (frameBytesK k proto profile (serialize (.defn d0 b0 :: .data d0.localT fs dev :: (done ++ it :: more)))).take
      (k.size + ((serialize (.defn d0 b0 :: .data d0.localT fs dev :: done)).length + j))) :
    (decode P o .full g r).1.err.isSome = true ∧ (decode P o .full g r).1.panic = false ∧
    (decode P o .full g r).1.st.glob = st1.glob ∧
    ∀ F1, st1.file = some F1 → ∃ F', (decode P o .full g r).1.st.file = some F' ∧ F'.sameContent F1 := by
  rw [decode_out_eq_spec]
  exact partial_file_on_cut_spec P hwf o k g proto profile d0 b0 fs dev done it more j r.data r.stop st1 hp hp2 hwf0 hg hkn
    hlen hfit hrun hj hdata

/-- **The same for `DecodeChained`**: when the chain reaches a frame cut inside a record, it stops
    with an error and returns the files decoded so far followed by the partial File of the cut
    frame — the messages of its complete records, nothing else. (With `chained_concat`, C10: for a
    chain of complete frames followed by a cut one, the result is the complete files, decoded one by
    one, and then this partial File.) -/
theorem chained_partial_on_cut (P : Profile) (hwf : ProfileWF P = true) (o : Opts) (k : HdrKind) (g : Globals) (proto profile : Nat)
    (d0 : DefMsg) (b0 : Bool) (fs dev : List Bytes) (done : List Item) (it : Item) (more : List Item) (j : Nat)
    (data : Bytes) (stop : Stop) (st1 : DecSt)
    (hp : proto < 256) (hp2 : proto / 16 ≤ protoMajorMax)
    (hwf0 : DefnWF d0 b0) (hg : d0.global = mnFileId) (hkn : P.known mnFileId = true)
    (hlen : (serialize (.defn d0 b0 :: .data d0.localT fs dev :: (done ++ it :: more))).length < 4294967296)
    (hfit : ItemsFitD P (List.replicate 16 none) (.defn d0 b0 :: .data d0.localT fs dev :: (done ++ it :: more)))
    (hrun : runItems P (afterHeader k g proto profile
      (serialize (.defn d0 b0 :: .data d0.localT fs dev :: (done ++ it :: more))).length).hdr g
      (.defn d0 b0 :: .data d0.localT fs dev :: done)
      (afterHeader k g proto profile
      (serialize (.defn d0 b0 :: .data d0.localT fs dev :: (done ++ it :: more))).length).crc = .ok st1)
    (hj : j < (serializeItem it).length)
    (hdata : data = (frameBytesK k proto profile (serialize (.defn d0 b0 :: .data d0.localT fs dev :: (done ++ it :: more)))).take
      (k.size + ((serialize (.defn d0 b0 :: .data d0.localT fs dev :: done)).length + j)))
    (fuel i : Nat) (acc : List FileSt) :
    (decodeChainedSpec P o (fuel + 1) i acc g data stop).err.isSome = true ∧
    (decodeChainedSpec P o (fuel + 1) i acc g data stop).panic = false ∧
    (decodeChainedSpec P o (fuel + 1) i acc g data stop).glob = st1.glob ∧
    ∀ F1, st1.file = some F1 → ∃ F', (decodeChainedSpec P o (fuel + 1) i acc g data stop).files = acc ++ [F'] ∧
      F'.sameContent F1 := by
  obtain ⟨h1, h2, h3, h4⟩ := partial_file_on_cut_spec P hwf o k g proto profile d0 b0 fs dev done it more j data stop st1
    hp hp2 hwf0 hg hkn hlen hfit hrun hj hdata
  have hne : data ≠ [] := by
    intro e
    have hl : data.length = 0 := by rw [e]; rfl
    rw [hdata, List.length_take, frameBytesK] at hl
    simp only [List.length_append, frameHdr_length, List.length_cons, List.length_nil] at hl
    have := k.size_cases
    have hser : (serialize (.defn d0 b0 :: .data d0.localT fs dev :: done)).length + j ≤
        (serialize (.defn d0 b0 :: .data d0.localT fs dev :: (done ++ it :: more))).length := by
      have : (Item.defn d0 b0 :: Item.data d0.localT fs dev :: (done ++ it :: more)) =
          (Item.defn d0 b0 :: Item.data d0.localT fs dev :: done) ++ it :: more := rfl
      rw [this, serialize_append, serialize_cons it more]
      simp only [List.length_append]; omega
    omega
  have hnc : ¬ ((decodeSpec P o .full g data stop).1.cleanEOF = true ∧ i ≠ 0) := by
    intro hc
    exact hne (spec_cleanEOF P o .full g data stop hc.1).1
  rw [decodeChainedSpec]
  simp only [h2, Bool.false_eq_true, ↓reduceIte]
  cases he : (decodeSpec P o .full g data stop).1.err with
  | none => rw [he] at h1; cases h1
  | some c =>
    simp only [hnc, ↓reduceIte]
    refine ⟨by simp, by simp, h3, ?_⟩
    intro F1 hF1
    obtain ⟨F', hF', hs⟩ := h4 F1 hF1
    exact ⟨F', by rw [hF'], hs⟩

/-! ### non-vacuity -/

/-- a file_id definition with the one field `type` -/
def exDef : DefMsg := ⟨0, .le, 0, [⟨0, 1, 0⟩], []⟩
/-- a file_id data record: type = activity -/
def exRec : Item := .data 0 [[4]] []

def isOk : StepRes → Bool
  | .ok _ => true
  | .stop _ => false

theorem exDefs : defsAfter Gen.profile (List.replicate 16 none) (.defn exDef false) =
    setAt (List.replicate 16 none) 0 (some exDef) := by decide +kernel

theorem exFit : ItemsFitD Gen.profile (List.replicate 16 none) (.defn exDef false :: exRec :: ([exRec] ++ exRec :: [])) := by
  have hrec : ∀ dm, (setAt (List.replicate 16 (none : Option DefMsg)) 0 (some exDef)).getD 0 none = some dm →
      FieldsFit dm.fields [[4]] ∧ DevFit dm.dev [] := by
    intro dm h
    have : dm = exDef := by
      have h' : some exDef = some dm := h
      injection h' with h'
      exact h'.symm
    subst this
    exact ⟨⟨rfl, trivial⟩, trivial⟩
  refine ⟨⟨by decide, by decide, by decide, ?_, (fun h => by cases h), (fun h => by cases h)⟩, ?_⟩
  · intro f hf
    simp only [exDef, List.mem_singleton] at hf
    subst hf
    exact ⟨by decide, by decide, by decide⟩
  · rw [exDefs]
    exact ⟨⟨by decide, hrec⟩, ⟨by decide, hrec⟩, ⟨by decide, hrec⟩, trivial⟩

set_option maxRecDepth 100000 in
/-- the premises of `partial_file_on_cut` are satisfiable on the regenerated profile: a frame with a 12-byte header, a
    file_id definition and three file_id data records, cut one byte into the third, read through
    any reader with any options; `Decode` reports an error and returns a File -/
example (o : Opts) (r : Reader)
    (hdata : r.data = (frameBytesK .noCrc 0x20 2115 (serialize (.defn exDef false :: exRec :: ([exRec] ++ exRec :: [])))).take
      (12 + ((serialize (.defn exDef false :: exRec :: [exRec])).length + 1))) :
    (decode Gen.profile o .full {} r).1.err.isSome = true ∧ (decode Gen.profile o .full {} r).1.panic = false ∧
    (decode Gen.profile o .full {} r).1.st.file.isSome = true := by
  have hok : isOk (runItems Gen.profile (afterHeader .noCrc {} 0x20 2115
      (serialize (.defn exDef false :: exRec :: ([exRec] ++ exRec :: []))).length).hdr {}
      (.defn exDef false :: exRec :: [exRec])
      (afterHeader .noCrc {} 0x20 2115 (serialize (.defn exDef false :: exRec :: ([exRec] ++ exRec :: []))).length).crc) = true ∧
      (match runItems Gen.profile (afterHeader .noCrc {} 0x20 2115
        (serialize (.defn exDef false :: exRec :: ([exRec] ++ exRec :: []))).length).hdr {}
        (.defn exDef false :: exRec :: [exRec])
        (afterHeader .noCrc {} 0x20 2115 (serialize (.defn exDef false :: exRec :: ([exRec] ++ exRec :: []))).length).crc with
       | .ok st => st.file.isSome
       | .stop _ => false) = true := by decide +kernel
  cases hr : runItems Gen.profile (afterHeader .noCrc {} 0x20 2115
      (serialize (.defn exDef false :: exRec :: ([exRec] ++ exRec :: []))).length).hdr {}
      (.defn exDef false :: exRec :: [exRec])
      (afterHeader .noCrc {} 0x20 2115 (serialize (.defn exDef false :: exRec :: ([exRec] ++ exRec :: []))).length).crc with
  | stop _ => rw [hr] at hok; cases hok.1
  | ok st1 =>
    rw [hr] at hok
    have hsome : st1.file.isSome = true := hok.2
    obtain ⟨h1, h2, _, h4⟩ := partial_file_on_cut Gen.profile C01.gen_wf o .noCrc {} 0x20 2115 exDef false [[4]] [] [exRec] exRec [] 1 r st1
      (by decide) (by decide) exFit.1 rfl (by decide +kernel) (by decide +kernel) exFit hr (by decide) hdata
    refine ⟨h1, h2, ?_⟩
    cases hf : st1.file with
    | none => rw [hf] at hsome; cases hsome
    | some F1 =>
      obtain ⟨F', hF', _⟩ := h4 F1 hf
      rw [hF']; rfl

end Fit.Props.C11
