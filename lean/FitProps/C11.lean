import FitModel.Decode
import FitProofs.Refine
import FitProofs.Frame
import FitProofs.Chain
/-!
  C11 — truncation and read faults never yield silent success.
-/
namespace Fit.Props.C11
open Fit

/-- a failed read inside the data area is never reported as a clean `io.EOF`: the reader ending
    gives "unexpected EOF", a reader error is passed on, exhausting the declared data size is a
    format error -/
theorem failed_buffered_read_is_error (e : RdStop) :
    bufErr e ≠ .eof ∧ (e = .eof → bufErr e = .ueof) ∧ (e = .fault → bufErr e = .fault) ∧
    (e = .limit → bufErr e = .format) := by
  cases e <;> simp [bufErr]

/-- every early exit of the record phase is an error or a panic, never a success -/
theorem early_exit_not_success (e : ErrExit) :
    e.toOutcome.err.isSome = true ∨ e.toOutcome.panic = true := by
  unfold ErrExit.toOutcome
  cases e.err <;> simp [fail, panicOut]

/-- The stream ending or failing while the trailing CRC is read is an error. -/
theorem crc_read_failure_is_error (st : DecSt) (s : SpecSt) (h : s.rest.length < 2) :
    (runSpecT (checkCRC st) s).1.err.isSome = true := by
  unfold checkCRC
  simp only [runSpecT]
  have : ¬ (2 ≤ s.rest.length) := by omega
  simp only [this, ↓reduceIte]
  cases s.stop <;> simp [fail]

/-- `DecodeChained` stops without error only on a clean end of input exactly on a file boundary
    (the reader ends before the first header byte of a file that is not the first); any other
    failing decode is reported, with the partial file appended. -/
theorem chained_reports_errors (P : Profile) (o : Opts) (fuel i : Nat) (acc : List FileSt) (g : Globals)
    (r : Reader) (c : ErrClass)
    (hp : (decode P o .full g r).1.panic = false)
    (he : (decode P o .full g r).1.err = some c)
    (hb : ¬ ((decode P o .full g r).1.cleanEOF = true ∧ i ≠ 0)) :
    (decodeChained P o (fuel + 1) i acc g r).err = some c := by
  simp only [decodeChained, hp, he, Bool.false_eq_true, ↓reduceIte]
  simp [hb]

theorem chained_clean_end (P : Profile) (o : Opts) (fuel i : Nat) (acc : List FileSt) (g : Globals)
    (r : Reader) (c : ErrClass)
    (hp : (decode P o .full g r).1.panic = false)
    (he : (decode P o .full g r).1.err = some c)
    (hb : (decode P o .full g r).1.cleanEOF = true ∧ i ≠ 0) :
    (decodeChained P o (fuel + 1) i acc g r).err = none ∧
    (decodeChained P o (fuel + 1) i acc g r).files = acc := by
  simp only [decodeChained, hp, he, Bool.false_eq_true, ↓reduceIte]
  simp [hb]

/-- **A stream shorter than the frame it declares is never a success**, for `Decode` and
    `CheckIntegrity`, whether the stream ends with EOF or with a reader error: truncation
    cannot be silent. -/
theorem short_input_never_succeeds (P : Profile) (o : Opts) (m : Mode) (hm : m = .full ∨ m = .crcOnly)
    (g : Globals) (data : Bytes) (stop : Stop) (hshort : data.length < frameLen data) :
    ¬ (decodeSpec P o m g data stop).1.success := by
  intro h
  unfold decodeSpec at h
  simp only at h
  have hs : (runSpec (decodeProg P m g) { rest := data, stop := stop, taken := 0 }).1.success := by
    have := finalize_err o (runSpec (decodeProg P m g) { rest := data, stop := stop, taken := 0 }).1
    unfold Outcome.success at h ⊢
    rw [this.1, this.2.1] at h
    exact h
  have h1 := (prog_consumes_exactly P m hm g _ hs).1
  have h2 := (runSpec_conserve (decodeProg P m g) { rest := data, stop := stop, taken := 0 }).1
  simp only [Nat.zero_add] at h1 h2
  omega

theorem frameLen_take (full : Bytes) (k : Nat) (hk : 8 ≤ k) : frameLen (full.take k) = frameLen full := by
  unfold frameLen
  have e1 : (full.take k).headD 0 = full.headD 0 := by
    cases full with
    | nil => simp
    | cons x xs =>
      cases k with
      | zero => omega
      | succ k => rfl
  have e2 : ((full.take k).drop 4).take 4 = (full.drop 4).take 4 := by
    rw [List.drop_take, List.take_take]
    congr 1
    omega
  rw [e1, e2]

/-- **Every cut is an error.** Cutting a stream anywhere before the end of the frame it
    declares (`k < frameLen full`) makes `Decode` and `CheckIntegrity` fail, at every one of the
    cut offsets and for both ways of ending (EOF, reader error). -/
theorem cut_is_error (P : Profile) (o : Opts) (m : Mode) (hm : m = .full ∨ m = .crcOnly)
    (g : Globals) (full : Bytes) (k : Nat) (stop : Stop) (hk : k < frameLen full) :
    ¬ (decodeSpec P o m g (full.take k) stop).1.success := by
  intro h
  unfold decodeSpec at h
  simp only at h
  have hs : (runSpec (decodeProg P m g) { rest := full.take k, stop := stop, taken := 0 }).1.success := by
    have := finalize_err o (runSpec (decodeProg P m g) { rest := full.take k, stop := stop, taken := 0 }).1
    unfold Outcome.success at h ⊢
    rw [this.1, this.2.1] at h
    exact h
  obtain ⟨h1, h14, _⟩ := prog_consumes_exactly P m hm g _ hs
  have h2 := (runSpec_conserve (decodeProg P m g) { rest := full.take k, stop := stop, taken := 0 }).1
  simp only [Nat.zero_add] at h1 h2 h14
  have hlen : (full.take k).length ≤ k := by rw [List.length_take]; omega
  by_cases h8 : 8 ≤ k
  · rw [frameLen_take full k h8] at h1
    omega
  · omega

/-- The same for the real, buffered run under any read schedule (by refinement). -/
theorem cut_is_error_buffered (P : Profile) (o : Opts) (m : Mode) (hm : m = .full ∨ m = .crcOnly)
    (g : Globals) (r : Reader) (full : Bytes) (k : Nat) (hd : r.data = full.take k) (hk : k < frameLen full) :
    ¬ (decode P o m g r).1.success := by
  intro h
  have e : (decode P o m g r).1 = (decodeSpec P o m g r.data r.stop).1 := by
    simp only [decode, decodeSpec]
    have := (run_refines (decodeProg P m g) r 0).1
    rw [this]
    have := runSpec_pos_irrelevant (decodeProg P m g)
      { rest := r.data, stop := r.stop, taken := r.pos, frameEnd := 0 }
      { rest := r.data, stop := r.stop, taken := 0 } rfl rfl
    rw [this]
  rw [e, hd] at h
  exact cut_is_error P o m hm g full k r.stop hk h

/-- **A chain cut inside a file is reported.** If what is left of the stream is shorter than the
    frame it declares — and is not the clean end (no bytes left and EOF) — `DecodeChained` returns
    an error (or panics); it never returns silently. In particular an empty stream is an error for
    the first file, and a reader error is never swallowed, even exactly on a file boundary. -/
theorem chained_cut_is_error (P : Profile) (o : Opts) (fuel i : Nat) (acc : List FileSt) (g : Globals)
    (d : Bytes) (stop : Stop) (hshort : d.length < frameLen d)
    (hne : d ≠ [] ∨ stop = .fault ∨ i = 0) :
    (decodeChainedSpec P o (fuel + 1) i acc g d stop).err.isSome = true ∨
    (decodeChainedSpec P o (fuel + 1) i acc g d stop).panic = true := by
  rw [decodeChainedSpec]
  by_cases hp : (decodeSpec P o .full g d stop).1.panic = true
  · simp [hp]
  · simp only [hp, Bool.false_eq_true, ↓reduceIte]
    cases he : (decodeSpec P o .full g d stop).1.err with
    | none =>
      exfalso
      exact spec_short_not_success P o .full (Or.inl rfl) g d stop hshort ⟨he, by simpa using hp⟩
    | some c =>
      simp only
      by_cases hc : (decodeSpec P o .full g d stop).1.cleanEOF = true ∧ i ≠ 0
      · exfalso
        obtain ⟨h1, h2⟩ := spec_cleanEOF P o .full g d stop hc.1
        rcases hne with h | h | h
        · exact h h1
        · rw [h2] at h; cases h
        · exact hc.2 h
      · simp [hc]

/-- **A cut inside the header is an error for every entry point** (DecodeHeader and
    DecodeHeaderAndFileID included): no mode succeeds on fewer bytes than the header size the first
    byte declares, nor on fewer than 12. -/
theorem header_cut_is_error (P : Profile) (o : Opts) (m : Mode) (g : Globals) (data : Bytes) (stop : Stop)
    (h : data.length < 12 ∨ data.length < (data.headD 0).toNat) :
    ¬ (decodeSpec P o m g data stop).1.success := by
  intro hs
  have hsp := spec_success_of P o m g data stop hs
  unfold decodeProg at hsp
  obtain ⟨st', size, hsz, hlen, hsize, _⟩ := decodeHeader_success _ _ _ hsp
  simp only at hlen hsize
  rcases h with h | h
  · rcases hsz with rfl | rfl <;> omega
  · omega

/-- `DecodeHeader` consumes exactly the header -/
theorem header_only_consumes_header (P : Profile) (o : Opts) (g : Globals) (data : Bytes) (stop : Stop)
    (hs : (decodeSpec P o .headerOnly g data stop).1.success) :
    (decodeSpec P o .headerOnly g data stop).2.taken = (data.headD 0).toNat := by
  have hsp := spec_success_of P o .headerOnly g data stop hs
  unfold decodeSpec
  simp only
  unfold decodeProg at hsp ⊢
  obtain ⟨st', size, hsz, hlen, hsize, _, _, _, heq⟩ := decodeHeader_success _ _ _ hsp
  rw [heq]
  simp only [runSpec, Nat.zero_add]
  exact hsize

end Fit.Props.C11
