import FitModel.Decode
import FitProofs.Refine
/-!
  C11 — truncation and read faults never yield silent success.
-/
namespace Fit.Props.C11
open Fit

/-- a failed read inside the data area is never reported as a clean `io.EOF`: the reader ending
    gives "unexpected EOF", a reader error is passed on, exhausting the declared data size is a
    format error -/
theorem failed_buffered_read_is_error (e : RdStop) :
    bufErr e ≠ .eof ∧ (e = .eof → bufErr e = .ueof) ∧ (e = .fault → bufErr e = .fault) ∧
    (e = .limit → bufErr e = .format) := by
  cases e <;> simp [bufErr]

/-- every early exit of the record phase is an error or a panic, never a success -/
theorem early_exit_not_success (e : ErrExit) :
    e.toOutcome.err.isSome = true ∨ e.toOutcome.panic = true := by
  unfold ErrExit.toOutcome
  cases e.err <;> simp [fail, panicOut]

/-- The stream ending or failing while the trailing CRC is read is an error. -/
theorem crc_read_failure_is_error (st : DecSt) (s : SpecSt) (h : s.rest.length < 2) :
    (runSpecT (checkCRC st) s).1.err.isSome = true := by
  unfold checkCRC
  simp only [runSpecT]
  have : ¬ (2 ≤ s.rest.length) := by omega
  simp only [this, ↓reduceIte]
  cases s.stop <;> simp [fail]

/-- `DecodeChained` stops without error only on a clean end of input exactly on a file boundary
    (the reader ends before the first header byte of a file that is not the first); any other
    failing decode is reported, with the partial file appended. -/
theorem chained_reports_errors (P : Profile) (o : Opts) (fuel i : Nat) (acc : List FileSt) (g : Globals)
    (r : Reader) (c : ErrClass)
    (hp : (decode P o .full g r).1.panic = false)
    (he : (decode P o .full g r).1.err = some c)
    (hb : ¬ ((decode P o .full g r).1.st.cleanEOF = true ∧ i ≠ 0)) :
    (decodeChained P o (fuel + 1) i acc g r).err = some c := by
  simp only [decodeChained, hp, he, Bool.false_eq_true, ↓reduceIte]
  simp [hb]

theorem chained_clean_end (P : Profile) (o : Opts) (fuel i : Nat) (acc : List FileSt) (g : Globals)
    (r : Reader) (c : ErrClass)
    (hp : (decode P o .full g r).1.panic = false)
    (he : (decode P o .full g r).1.err = some c)
    (hb : (decode P o .full g r).1.st.cleanEOF = true ∧ i ≠ 0) :
    (decodeChained P o (fuel + 1) i acc g r).err = none ∧
    (decodeChained P o (fuel + 1) i acc g r).files = acc := by
  simp only [decodeChained, hp, he, Bool.false_eq_true, ↓reduceIte]
  simp [hb]

end Fit.Props.C11
