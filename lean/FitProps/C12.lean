import FitModel.Items
import FitModel.Gen.Profile
import FitProofs.Framing
/-!
  C12 — timestamps follow the FIT time rules, including compressed headers.

  `Val.t secs off loc` is the instant `FIT epoch + secs` shown in a zone of offset `off`
  (loc 0 = UTC, 1 = FITLOCAL); its wall-clock reading is `secs + off`.
  The functions below are the ones the decoder model (`Decode.lean`) and the record machine
  (`Items.lean`) call for every time field and every compressed-timestamp header.
-/
namespace Fit.Props.C12
open Fit

/-- the rule of the FIT protocol: latest timestamp advanced to the next instant whose low five
    bits equal the offset (32-second rollover), modulo 2^32 -/
def tsSpec (ref off : Nat) : Nat :=
  (if off ≥ ref % 32 then ref - ref % 32 + off else ref - ref % 32 + off + 32) % 2 ^ 32

/-- the decoder keeps the low five bits of the reference in `lastOff` -/
def Inv (ts : TsRef) : Prop := ts.lastOff = ts.timestamp % 32

/-- One compressed-timestamp header: the reference becomes `tsSpec reference offset`. -/
theorem compressed_rule (ts : TsRef) (off : Nat) (hoff : off < 32) (hi : Inv ts)
    (hlt : ts.timestamp < 2 ^ 32) :
    tsAdvance ts.timestamp ts.lastOff off = tsSpec ts.timestamp off := by
  unfold tsAdvance tsSpec Inv at *
  rw [hi]
  have e : (2 : Nat) ^ 32 = 4294967296 := by decide
  rw [e] at *
  split <;> omega

/-- … and the invariant is re-established (except when the addition wraps past 2^32, where
    2^32 is a multiple of 32, so it still holds). -/
theorem compressed_keeps_inv (ts : TsRef) (off : Nat) (hoff : off < 32) (hi : Inv ts)
    (hlt : ts.timestamp < 2 ^ 32) :
    Inv ⟨tsAdvance ts.timestamp ts.lastOff off, off⟩ := by
  unfold tsAdvance Inv at *
  simp only
  rw [hi]
  have e : (2 : Nat) ^ 32 = 4294967296 := by decide
  rw [e] at *
  omega

/-- The new reference is never earlier than the old one by the rule, and less than 32 s later
    (before reduction modulo 2^32). -/
theorem compressed_advances (ref off : Nat) (hoff : off < 32) (h : ref + 32 < 2 ^ 32) :
    ref ≤ tsSpec ref off ∧ tsSpec ref off < ref + 32 ∧ tsSpec ref off % 32 = off := by
  unfold tsSpec
  have e : (2 : Nat) ^ 32 = 4294967296 := by decide
  rw [e] at *
  split <;> omega

/-- A run of consecutive compressed records accumulates: offsets `offs` from reference `ts`
    give the references `scanl tsSpec`. -/
def runCompressed : TsRef → List Nat → List Nat
  | _, [] => []
  | ts, off :: offs =>
    let t := tsAdvance ts.timestamp ts.lastOff off
    t :: runCompressed ⟨t, off⟩ offs

def scanSpec : Nat → List Nat → List Nat
  | _, [] => []
  | ref, off :: offs => tsSpec ref off :: scanSpec (tsSpec ref off) offs

theorem run_accumulates (ts : TsRef) (offs : List Nat) (ho : ∀ o ∈ offs, o < 32) (hi : Inv ts)
    (hlt : ts.timestamp < 2 ^ 32) :
    runCompressed ts offs = scanSpec ts.timestamp offs := by
  induction offs generalizing ts with
  | nil => rfl
  | cons off offs ih =>
    have hoff : off < 32 := ho off (by simp)
    have h1 := compressed_rule ts off hoff hi hlt
    have h2 := compressed_keeps_inv ts off hoff hi hlt
    simp only [runCompressed, scanSpec]
    rw [h1]
    congr 1
    have h3 : tsSpec ts.timestamp off < 2 ^ 32 := by
      unfold tsSpec; exact Nat.mod_lt _ (by decide)
    have := ih ⟨tsSpec ts.timestamp off, off⟩ (fun o h => ho o (by simp [h])) (by rw [← h1]; exact h2) h3
    simpa using this

/-- date_time fields: `v ≠ 0xFFFFFFFF` decodes to epoch + v seconds in UTC; 0xFFFFFFFF leaves the
    field untouched (it keeps the constructor's invalid base time). -/
theorem datetime_decode (ts : TsRef) (pf : PField) (v : Nat) (hk : tcKind pf.tcode = .timeUTC) :
    (v ≠ 0xFFFFFFFF → (parseTimeStamp ts pf v).1 = some (.t v 0 0)) ∧
    ((parseTimeStamp ts pf 0xFFFFFFFF) = (none, ts)) := by
  unfold parseTimeStamp
  constructor
  · intro h; simp [h, hk]
  · simp

/-- every explicit timestamp field (number 253) re-bases the reference and restores `Inv` -/
theorem explicit_rebases (ts : TsRef) (pf : PField) (v : Nat) (hk : tcKind pf.tcode = .timeUTC)
    (hn : pf.num = fieldNumTimeStamp) (hv : v ≠ 0xFFFFFFFF) :
    (parseTimeStamp ts pf v).2 = ⟨v, v % 32⟩ ∧ Inv (parseTimeStamp ts pf v).2 := by
  unfold parseTimeStamp Inv
  simp [hv, hk, hn]

/-- the reference changes only through field 253 of kind date_time -/
theorem reference_only_from_timestamp_field (ts : TsRef) (pf : PField) (v : Nat)
    (h : (parseTimeStamp ts pf v).2 ≠ ts) : pf.num = fieldNumTimeStamp ∧ tcKind pf.tcode = .timeUTC := by
  unfold parseTimeStamp at h
  split at h
  · exact absurd rfl h
  · split at h
    · rename_i hk
      split at h
      · rename_i hn; exact ⟨hn, hk⟩
      · exact absurd rfl h
    · split at h <;> exact absurd rfl h

/-- wall-clock reading (seconds since the FIT epoch) and instant of a time value -/
def wallClock : Val → Option Int
  | .t secs off _ => some (secs + off)
  | _ => none

/-- local_date_time fields keep the stored wall-clock reading; with a reference (a timestamp at or
    above the system-time marker) the instant is the reference and the zone offset is
    local − UTC; without one the offset is 0. -/
theorem local_wallclock (ts : TsRef) (pf : PField) (v : Nat) (hk : tcKind pf.tcode = .timeLocal)
    (hv : v ≠ 0xFFFFFFFF) :
    ((parseTimeStamp ts pf v).1.bind wallClock = some (v : Int)) ∧
    (parseTimeStamp ts pf v).2 = ts ∧
    ((systemTimeMarker ≤ ts.timestamp) →
        (parseTimeStamp ts pf v).1 = some (.t ts.timestamp ((v : Int) - ts.timestamp) 1)) ∧
    ((ts.timestamp < systemTimeMarker) → (parseTimeStamp ts pf v).1 = some (.t v 0 1)) := by
  unfold parseTimeStamp
  have hk' : ¬ (tcKind pf.tcode = Kind.timeUTC) := by rw [hk]; decide
  simp only [hv, hk', ↓reduceIte]
  refine ⟨?_, ?_, ?_, ?_⟩
  · split <;> simp [wallClock]; omega
  · split <;> rfl
  · intro h
    have h0 : ¬ (ts.timestamp = 0 ∨ ts.timestamp < systemTimeMarker) := by
      unfold systemTimeMarker at *; omega
    simp [h0]
  · intro h
    have h0 : (ts.timestamp = 0 ∨ ts.timestamp < systemTimeMarker) := Or.inr h
    simp [h0]

/-- without a reference (timestamp 0) a compressed-timestamp record does not set a time:
    `stepData` takes the uncompressed path. -/
theorem no_reference_skips (P : Profile) (hb : Nat) (fs dev : List Bytes) (st : DecSt)
    (h : st.timestamp = 0) (hl : st.defs.getD ((hb / 32) % 4) none = st.defs.getD (hb % 16) none) :
    stepData P hb true fs dev st = stepData P hb false fs dev st := by
  unfold stepData
  have hl' : st.defs[hb / 32 % 4]?.getD none = st.defs[hb % 16]?.getD none := by
    simpa [List.getD_eq_getElem?_getD] using hl
  simp [h, hl']

/-- non-vacuity: reference 1000 (low bits 8), offset 12 → 1004; offset 3 → 1027 (rollover). -/
example : tsSpec 1000 12 = 1004 ∧ tsSpec 1000 3 = 1027 ∧ tsAdvance 1000 8 3 = 1027 := by decide

/-- **Framing (byte parser = record machine).** On the serialisation of any list of items that fit
    the definitions live when they are reached, the byte-level record loop of the decoder arrives
    at exactly the state the record machine `stepItems` computes (and at the loop over whatever
    follows), or stops with the same error class. The theorems of this file about the record machine
    are therefore theorems about the decoder on every such stream. -/
theorem byte_parser_is_record_machine (P : Profile) (limit : Nat) (cont : DecSt → DP) (its : List Item) (fuel : Nat)
    (st : DecSt) (n : Nat) (s : SpecSt) (tail : Bytes) (hfit : ItemsFit P st its)
    (hs : s.rest = serialize its ++ tail) (hl : n + (serialize its).length ≤ limit) (hn : st.n = n) :
    match stepItems P st its with
    | .ok st' =>
      runSpecD limit (decodeFileData P limit (fuel + its.length) st cont) n s =
        runSpecD limit (decodeFileData P limit fuel st' cont) (n + (serialize its).length)
          { s with rest := tail, taken := s.taken + (serialize its).length } ∧ st'.n = n + (serialize its).length
    | .stop o =>
      ∃ e, (runSpecD limit (decodeFileData P limit (fuel + its.length) st cont) n s).1 = .inl e ∧
        e.err = (exitOf o).err :=
  run_items P limit cont its fuel st n s tail hfit hs hl hn

/-! ### compressed-timestamp records: what the fields of the record itself are decoded against -/

theorem hb_local (l off : Nat) (hl : l < 4) (hoff : off < 32) : (0x80 + l * 32 + off) / 32 % 4 = l := by omega
theorem hb_off (l off : Nat) (hoff : off < 32) : (0x80 + l * 32 + off) % 32 = off := by omega

/-- A compressed-timestamp record of a message without a timestamp field is an ordinary record read
    *after* the reference was advanced by the header's offset: every field of the record — a local
    timestamp in particular — is decoded against the record's own time, not the previous record's. -/
theorem compressed_fields_see_advanced_reference (P : Profile) (l off : Nat) (hl : l < 4) (hoff : off < 32)
    (fs dev : List Bytes) (st : DecSt) (href : st.timestamp ≠ 0) (dm : DefMsg)
    (hd : st.defs.getD l none = some dm)
    (hctor : P.known dm.global = true → ∃ pm, P.msg? dm.global = some pm ∧ pm.hasCtor = true)
    (hno : P.getField dm.global fieldNumTimeStamp = none) :
    stepData P (0x80 + l * 32 + off) true fs dev st =
      stepData P l false fs dev { st with timestamp := tsAdvance st.timestamp st.lastOff off, lastOff := off } := by
  unfold stepData
  have e1 := hb_local l off hl hoff
  have e2 := hb_off l off hoff
  have e3 : l % 16 = l := by omega
  simp only [e1, e2, e3, if_true, Bool.true_and, Bool.false_and, href, ne_eq, not_false_eq_true, decide_true, hd, hno]
  have hd' : st.defs[l]?.getD none = some dm := by
    rw [← List.getD_eq_getElem?_getD]; exact hd
  cases hk : P.known dm.global with
  | false => simp [hd', hk]
  | true =>
    obtain ⟨pm, hpm, hc⟩ := hctor hk
    simp [hd', hk, hpm, hc]

/-- an ordinary data record of local type `l` whose fresh all-invalid message is passed through
    `pre` before the fields are read (`pre = id`: `stepData` itself, `stepDataPreset_id`) -/
def stepDataPreset (P : Profile) (l : Nat) (pre : Msg → Msg) (fields dev : List Bytes) (st : DecSt) : StepRes :=
  match st.defs.getD l none with
  | none => .stop (fail st .other)
  | some dm =>
    let known := P.known dm.global
    let ctor := match P.msg? dm.global with
      | some pm => if pm.hasCtor then some (Msg.mk dm.global pm.invalid) else none
      | none => none
    if known ∧ ctor.isNone then .stop (panicOut st)
    else
      let m : Option Msg := if known then ctor.map pre else none
      let st := if !known then { st with unkM := bump dm.global st.unkM } else st
      match stepFields P dm known dm.fields fields m st with
      | .fail o => .stop o
      | .ok m st =>
        let st := stepDev dm.dev dev st
        match addMsg P m st with
        | none => .stop (panicOut st)
        | some st => .ok st

theorem stepDataPreset_id (P : Profile) (l : Nat) (hl : l < 16) (fs dev : List Bytes) (st : DecSt) :
    stepDataPreset P l id fs dev st = stepData P l false fs dev st := by
  unfold stepDataPreset stepData
  have e3 : l % 16 = l := by omega
  simp only [e3, Bool.false_and, Bool.false_eq_true, if_false, Option.map_id, id_eq]
  cases st.defs.getD l none with
  | none => rfl
  | some dm =>
    simp only []
    cases P.known dm.global <;> cases P.msg? dm.global <;> simp <;> rfl

/-- The same for a message that has a timestamp field: the compressed record is the ordinary record,
    read after the reference was advanced, into a message whose timestamp already holds the
    advanced reference. Its other fields — `local_timestamp` of activity or monitoring_info, say —
    are therefore decoded against the record's own time. -/
theorem compressed_record_is_plain_record_at_its_time (P : Profile) (l off : Nat) (hl : l < 4) (hoff : off < 32)
    (fs dev : List Bytes) (st : DecSt) (href : st.timestamp ≠ 0) (dm : DefMsg) (pm : PMsg) (pf : PField)
    (hd : st.defs.getD l none = some dm) (hk : P.known dm.global = true)
    (hpm : P.msg? dm.global = some pm) (hc : pm.hasCtor = true)
    (hf : P.getField dm.global fieldNumTimeStamp = some pf) (hlay : pm.layout[pf.sindex]? = some .time) :
    stepData P (0x80 + l * 32 + off) true fs dev st =
      stepDataPreset P l
        (fun m => { m with vals := setAt m.vals pf.sindex (.t (Int.ofNat (tsAdvance st.timestamp st.lastOff off)) 0 0) })
        fs dev { st with timestamp := tsAdvance st.timestamp st.lastOff off, lastOff := off } := by
  unfold stepData stepDataPreset
  have e1 := hb_local l off hl hoff
  have e2 := hb_off l off hoff
  have hd' : st.defs[l]?.getD none = some dm := by
    rw [← List.getD_eq_getElem?_getD]; exact hd
  simp [e1, e2, href, hd', hk, hpm, hc, hf, hlay]
  rfl

/-- non-vacuity on the regenerated profile: activity (34) has a timestamp field in a `time` slot, a
    constructor, and a local-timestamp field -/
example : (match Gen.profile.msg? 34, Gen.profile.getField 34 fieldNumTimeStamp with
    | some pm, some pf => pm.hasCtor && Gen.profile.known 34 && (pm.layout[pf.sindex]? == some .time) &&
        (pm.fields.any fun lf => tcKind lf.tcode == .timeLocal)
    | _, _ => false) = true := by
  decide +kernel

end Fit.Props.C12
