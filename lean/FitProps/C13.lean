import FitModel.Items
import FitModel.Gen.Profile
import FitProofs.ListLemmas
import FitProofs.Framing
/-!
  C13 — local message types: the latest definition wins and slots are independent.

  Statements are about the record machine `stepItem` (FitModel/Items.lean), which shares every
  definition with the byte-level parser; `FitProofs/Framing.lean` relates the two.
-/
namespace Fit.Props.C13
open Fit

/-- A definition record that is accepted replaces exactly the slot of its local type … -/
theorem definition_wins (P : Profile) (st st' : DecSt) (d : DefMsg) (devBit : Bool)
    (hl : d.localT < st.defs.length)
    (h : stepItem P st (.defn d devBit) = .ok st') :
    st'.defs.getD d.localT none = some (if devBit then d else { d with dev := [] }) := by
  unfold stepItem at h
  simp only at h
  split at h
  · cases h
  · split at h
    · cases h
    · cases h
      simp only [DecSt.eat]
      exact getD_setAt_eq _ _ _ _ hl

/-- … and never changes how records of other local types are interpreted. -/
theorem redefinition_is_local (P : Profile) (st st' : DecSt) (d : DefMsg) (devBit : Bool) (l : Nat)
    (hne : d.localT ≠ l)
    (h : stepItem P st (.defn d devBit) = .ok st') :
    st'.defs.getD l none = st.defs.getD l none := by
  unfold stepItem at h
  simp only at h
  split at h
  · cases h
  · split at h
    · cases h
    · cases h
      simp only [DecSt.eat]
      exact getD_setAt_ne _ _ _ _ _ hne

/-- A data record whose local type has no definition is an error. -/
theorem undefined_slot_is_error (P : Profile) (st : DecSt) (l : Nat) (fs dev : List Bytes)
    (hl : l < 16) (h : st.defs.getD l none = none) :
    stepItem P st (.data l fs dev) = .stop (fail (st.eat [u8 l]) .other) := by
  unfold stepItem stepData
  have : l % 16 = l := Nat.mod_eq_of_lt hl
  have h' : st.defs[l]?.getD none = none := by simpa [List.getD_eq_getElem?_getD] using h
  simp [this, DecSt.eat, h']

theorem undefined_slot_is_error_compressed (P : Profile) (st : DecSt) (l off : Nat) (fs dev : List Bytes)
    (hl : l < 4) (ho : off < 32) (h : st.defs.getD l none = none) :
    ∃ o, stepItem P st (.cdata l off fs dev) = .stop o ∧ o.err = some .other ∧ o.panic = false := by
  unfold stepItem stepData
  have : (0x80 + l * 32 + off) / 32 % 4 = l := by omega
  have h' : st.defs[l]?.getD none = none := by simpa [List.getD_eq_getElem?_getD] using h
  simp [this, DecSt.eat, h', fail]

/-- Record header bits: every byte is exactly one of compressed-timestamp header (local type in
    bits 5–6, offset in bits 0–4), definition header or data header (local type in bits 0–3). -/
theorem header_bits : ∀ b : Fin 256,
    (hasBit b.val compressedHeaderMask = true → (b.val / 32) % 4 < 4 ∧ b.val % 32 < 32) ∧
    (hasBit b.val compressedHeaderMask = false → b.val % 16 < 16) ∧
    (hasBit b.val compressedHeaderMask = (decide (b.val ≥ 128))) ∧
    (hasBit b.val mesgDefinitionMask = (decide ((b.val / 64) % 2 = 1))) := by decide +kernel

/-- the 16-slot table keeps its size -/
theorem defs_length (P : Profile) (st st' : DecSt) (d : DefMsg) (devBit : Bool)
    (h : stepItem P st (.defn d devBit) = .ok st') : st'.defs.length = st.defs.length := by
  unfold stepItem at h
  simp only at h
  split at h
  · cases h
  · split at h
    · cases h
    · cases h
      simp [DecSt.eat, length_setAt]

/-- non-vacuity: a definition for record (20) on local type 5 is accepted and then found. -/
example : ∃ st', stepItem Gen.profile (DecSt.init {})
    (.defn ⟨5, .le, 20, [⟨3, 1, 2⟩], []⟩ false) = .ok st' ∧
    (st'.defs.getD 5 none).isSome = true := by
  refine ⟨_, rfl, ?_⟩
  decide

/-- **Framing (byte parser = record machine).** On the serialisation of any list of items that fit
    the definitions live when they are reached, the byte-level record loop of the decoder arrives
    at exactly the state the record machine `stepItems` computes (and at the loop over whatever
    follows), or stops with the same error class. The theorems of this file about the record machine
    are therefore theorems about the decoder on every such stream. -/
theorem byte_parser_is_record_machine (P : Profile) (limit : Nat) (cont : DecSt → DP) (its : List Item) (fuel : Nat)
    (st : DecSt) (n : Nat) (s : SpecSt) (tail : Bytes) (hfit : ItemsFit P st its)
    (hs : s.rest = serialize its ++ tail) (hl : n + (serialize its).length ≤ limit) (hn : st.n = n) :
    match stepItems P st its with
    | .ok st' =>
      runSpecD limit (decodeFileData P limit (fuel + its.length) st cont) n s =
        runSpecD limit (decodeFileData P limit fuel st' cont) (n + (serialize its).length)
          { s with rest := tail, taken := s.taken + (serialize its).length } ∧ st'.n = n + (serialize its).length
    | .stop o =>
      ∃ e, (runSpecD limit (decodeFileData P limit (fuel + its.length) st cont) n s).1 = .inl e ∧
        e.err = (exitOf o).err :=
  run_items P limit cont its fuel st n s tail hfit hs hl hn

end Fit.Props.C13
