import FitModel.Crc
import FitProofs.Crc
/-!
  C14 — the checksum is CRC-16/ARC and does not depend on how data is fed.
  Statements only use definitions of `FitModel.Crc` (the model of dyncrc16.go).
-/
namespace Fit.Props.C14
open Fit.Crc

/-- Every (state, byte) transition of the table implementation equals eight steps of the
    reflected bit-serial register with polynomial 0xA001. -/
theorem updateByte_eq_spec (c : BitVec 16) (b : BitVec 8) : updateByte c b = specByte c b :=
  updateByte_eq_specByte c b

/-- For every byte sequence the package checksum is the bit-serial CRC with zero initial value. -/
theorem checksum_eq_spec (d : List UInt8) : checksum d = specChecksum d :=
  update_eq_specUpdate 0#16 d

/-- Any split of the data into successive writes gives the same sum as a single write. -/
theorem write_split (h : Hash) (parts : List (List UInt8)) :
    (parts.foldl Hash.write h).sum16 = (h.write parts.flatten).sum16 := by
  induction parts generalizing h with
  | nil => simp [Hash.write, update]
  | cons p ps ih =>
    simp only [List.foldl_cons, List.flatten_cons]
    rw [ih]
    simp [Hash.write, update_append]

/-- A fresh or reset object is in the initial state and then computes `Checksum`. -/
theorem reset_initial (h : Hash) (d : List UInt8) :
    (h.reset).sum16 = 0#16 ∧ Hash.new.sum16 = 0#16 ∧ ((h.reset).write d).sum16 = checksum d := by
  simp [Hash.reset, Hash.new, Hash.sum16, Hash.write, checksum]

/-- Residue rule: appending the current sum little-endian drives the register to zero,
    from any starting state (in particular `checksum (d ++ [lo, hi]) = 0`). -/
theorem residue_from (c0 : BitVec 16) (d : List UInt8) :
    update c0 (d ++ [lo (update c0 d), hi (update c0 d)]) = 0#16 := by
  rw [update_append]
  generalize update c0 d = c
  simp only [update, List.foldl_cons, List.foldl_nil, lo, hi]
  rw [updateByte_lo]
  have : ((c >>> 8).truncate 8) = ((c >>> 8).truncate 8) := rfl
  rw [updateByte_lo, ← BitVec.shiftRight_add]
  apply BitVec.eq_of_toNat_eq
  simp only [BitVec.toNat_ushiftRight, BitVec.toNat_ofNat, Nat.shiftRight_eq_div_pow]
  have := c.isLt
  omega

theorem residue (d : List UInt8) : checksum (d ++ [lo (checksum d), hi (checksum d)]) = 0#16 :=
  residue_from 0#16 d

/-- non-vacuity / sanity: the standard check value of CRC-16/ARC ("123456789" ↦ 0xBB3D). -/
example : checksum [0x31, 0x32, 0x33, 0x34, 0x35, 0x36, 0x37, 0x38, 0x39] = 0xBB3D#16 := by decide

end Fit.Props.C14
