import FitModel.WF
import FitProofs.TypedEncode
import FitProofs.Chain
import FitProps.C01
import FitModel.Gen.Profile
/-!
  C15 — profile tables, message structs and all-invalid constructors agree everywhere.

  `ProfileWF` (FitModel/WF.lean) is a decidable predicate over the tables; `Gen.profile` is
  regenerated from /repo on every run by reflection over the live `_fields`, `knownMsgNums`,
  `msgsTypes`, `newMesgFuncs` and the container structs, so `gen_wf` is re-checked by the kernel
  against what the code says now.
-/
namespace Fit.Props.C15
open Fit

/-- the regenerated profile is well formed (kernel evaluation over every entry) -/
theorem gen_wf : ProfileWF Gen.profile = true := by decide +kernel

/-- what well-formedness says about one entry, in readable form -/
theorem entry_facts (P : Profile) (h : ProfileWF P = true) (m : PMsg) (hm : m ∈ P.msgs)
    (f : PField) (hf : f ∈ m.fields) :
    fieldWF m f = true := by
  simp only [ProfileWF, Bool.and_eq_true, List.all_eq_true] at h
  have := h.1.1.1.2 m hm
  simp only [msgWF, Bool.and_eq_true, List.all_eq_true] at this
  exact this.1.2 f hf

/-- known ⇒ struct type, constructor and lookup row exist -/
theorem known_has_tables (P : Profile) (h : ProfileWF P = true) (m : PMsg) (hm : m ∈ P.msgs)
    (hk : m.known = true) : m.inFields = true ∧ m.hasType = true ∧ m.hasCtor = true := by
  simp only [ProfileWF, Bool.and_eq_true, List.all_eq_true] at h
  have := h.1.1.1.2 m hm
  simp only [msgWF, Bool.and_eq_true, List.all_eq_true, hk, Bool.not_true, Bool.false_or] at this
  obtain ⟨⟨⟨⟨⟨⟨⟨⟨⟨_, h2⟩, _⟩, _⟩, _⟩, _⟩, _⟩, _⟩, _⟩, _⟩ := this
  exact ⟨h2.1.1, h2.1.2, h2.2⟩

/-- the entry designates an existing struct field of exactly the Go type the entry's base
    type, array flag and time/coordinate kind call for -/
theorem entry_slot (m : PMsg) (f : PField) (h : fieldWF m f = true) :
    ∃ k, m.layout[f.sindex]? = some k ∧ slotOfType f.tcode = some k := by
  simp only [fieldWF, Bool.and_eq_true] at h
  have hs := h.1.1.1.2
  cases h1 : m.layout[f.sindex]? with
  | none => simp [h1] at hs
  | some k =>
    cases h2 : slotOfType f.tcode with
    | none => simp [h1, h2] at hs
    | some k' =>
      simp [h1, h2] at hs
      exact ⟨k, rfl, by rw [hs]⟩

/-- the constructor initialises it to that type's invalid value -/
theorem entry_invalid (m : PMsg) (f : PField) (h : fieldWF m f = true) :
    ∃ v, m.invalid[f.sindex]? = some v ∧ invalidOfType f.tcode = some v := by
  simp only [fieldWF, Bool.and_eq_true] at h
  have hs := h.1.1.2
  cases h1 : m.invalid[f.sindex]? with
  | none => simp [h1] at hs
  | some v =>
    cases h2 : invalidOfType f.tcode with
    | none => simp [h1, h2] at hs
    | some v' =>
      simp [h1, h2] at hs
      exact ⟨v, rfl, by rw [hs]⟩

/-- every message type held by a file container is known -/
theorem containers_known (P : Profile) (h : ProfileWF P = true) (c : Container) (hc : c ∈ P.containers)
    (s : CSlot) (hs : s ∈ c.slots) : P.known s.msg = true := by
  simp only [ProfileWF, Bool.and_eq_true, List.all_eq_true] at h
  have := h.1.1.2 c hc
  simp only [containerWF, List.all_eq_true] at this
  exact this s hs

/-- the table sizes the decoder indexes are consistent: every known number is inside all three -/
theorem known_in_range : Gen.knownNums.all (fun n => decide (n < Gen.lenFields) && decide (n < Gen.lenTypes) &&
    decide (n < Gen.lenCtors)) = true := by decide +kernel

/-- the constants the hand-written model uses are the repository's -/
theorem consts_agree : mnFileId = Gen.mnFileId ∧ mnFileCreator = Gen.mnFileCreator ∧
    mnTimestampCorrelation = Gen.mnTimestampCorrelation ∧ mnFieldDescription = Gen.mnFieldDescription ∧
    mnDeveloperDataId = Gen.mnDeveloperDataId ∧ mnSession = Gen.mnSession ∧ mnLap = Gen.mnLap ∧
    mnRecord = Gen.mnRecord ∧ mnEvent = Gen.mnEvent ∧ mnSegmentLap = Gen.mnSegmentLap := by decide

/-- non-vacuity: record.distance (message 20, field 5) is a uint32 scalar whose invalid is 0xFFFFFFFF -/
example : ∃ f ∈ Gen.m20.fields, f.num = 5 ∧ slotOfType f.tcode = some (.sc (.u 32)) ∧
    invalidOfType f.tcode = some (.u 0xFFFFFFFF) := by decide

/-! ### "no profile-driven reflection access can fail" -/

/-- **decoder side**: on any profile with `ProfileWF` no decode entry point reaches a failing
    reflection access (`SetUint` on the wrong kind, `Field(i)` out of range, a nil constructor, …) —
    whatever the input, options, package state and read schedule -/
theorem decoder_accesses_never_fail (P : Profile) (h : ProfileWF P = true) (o : Opts) (m : Mode) (g : Globals) (r : Reader) :
    (decode P o m g r).1.panic = false :=
  C01.decode_never_panics P h o m g r

/-- **encoder side**: on any profile with `ProfileWF`, `Encode` of a File whose messages are well
    typed (what Go's type system guarantees of every File a caller can build, and what `Decode`
    returns: `C07.decoded_file_typed`) reaches no failing type assertion, missing lookup entry or
    out-of-range struct field -/
theorem encoder_accesses_never_fail (P : Profile) (h : ProfileWF P = true) (arch : Endian) (f : FileSt)
    (hf : FileTyped P f) (hc : f.cidx.isSome = true) : encode P arch f ≠ .panic :=
  encode_no_panic P h arch f hf hc

end Fit.Props.C15
