import FitProps.C16Core
import FitProps.C16Cut
import FitProps.C16Opts
/-!
  C16 — decode options only add information; unknown-item counts are exact.

  The theorems live in two files, both in namespace `Fit.Props.C16`:
  * `C16Core.lean`: options are transparent, lists only when asked and sorted, the counters count
    (`bump_counts`), exact counts on a successful decode (`unknown_counts_exact`);
  * `C16Cut.lean`: when decoding fails part-way the counters account for every completed record
    (`unknown_counts_on_cut`; the counters only grow while a record is read, `oneRecord_cnt`);
  * `C16Opts.lean`: the option list itself (`FitModel/Options.lean`: the options applied in order to
    the zero record) — order and repetitions do not matter (`options_order_irrelevant`, `options_perm`,
    `decode_options_order`) and a later option never undoes an earlier one (`options_only_add`).
-/
