import FitProps.C16Core
import FitProps.C16Cut
/-!
  C16 — decode options only add information; unknown-item counts are exact.

  The theorems live in two files, both in namespace `Fit.Props.C16`:
  * `C16Core.lean`: options are transparent, lists only when asked and sorted, the counters count
    (`bump_counts`), exact counts on a successful decode (`unknown_counts_exact`);
  * `C16Cut.lean`: when decoding fails part-way the counters account for every completed record
    (`unknown_counts_on_cut`; the counters only grow while a record is read, `oneRecord_cnt`).
-/
