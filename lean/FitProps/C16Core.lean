import FitModel.Items
import FitModel.Gen.Profile
import FitProofs.Framing
import FitProofs.UnkCounts
/-!
  C16 — decode options only add information; unknown-item counts are exact.

  In the model the decoder program does not take the options at all: it always counts, and
  `finalize` publishes the two lists only when the corresponding option is set.  (The correspondence
  run checks this structure against the real code under all eight option sets.)
-/
namespace Fit.Props.C16
open Fit

/-- everything except the two unknown-item lists -/
def FileSt.core (f : FileSt) : FileSt := { f with unkM := none, unkF := none }

/-- Options change neither the error, nor panics, nor the bytes pulled from the reader, nor the
    decoded File apart from the two lists; the logger changes nothing at all. -/
theorem options_transparent (P : Profile) (o : Opts) (mode : Mode) (g : Globals) (r : Reader) :
    let a := decode P o mode g r
    let b := decode P {} mode g r
    a.1.err = b.1.err ∧ a.1.panic = b.1.panic ∧ a.2 = b.2 ∧
    a.1.st.file.map FileSt.core = b.1.st.file.map FileSt.core ∧
    a.1.st.glob = b.1.st.glob := by
  simp only [decode]
  generalize runBuffered (decodeProg P mode g) r = res
  obtain ⟨out, b⟩ := res
  simp only [finalize]
  by_cases hu : out.st.unkInit <;> simp [hu]
  cases hf : out.st.file with
  | none => simp
  | some f =>
    by_cases h1 : o.unkFields <;> by_cases h2 : o.unkMsgs <;> simp [h1, h2, FileSt.core]

theorem logger_irrelevant (P : Profile) (o : Opts) (mode : Mode) (g : Globals) (r : Reader) :
    decode P { o with logger := true } mode g r = decode P { o with logger := false } mode g r := by
  simp [decode, finalize]

/-- a list is published iff its option is set (and decoding got past the header) -/
theorem lists_only_when_asked (o : Opts) (out : Outcome) (f : FileSt) (hf : out.st.file = some f)
    (hn : f.unkM = none ∧ f.unkF = none) :
    ∀ f', (finalize o out).st.file = some f' →
      (f'.unkM.isSome → o.unkMsgs = true) ∧ (f'.unkF.isSome → o.unkFields = true) := by
  intro f' h
  simp only [finalize] at h
  by_cases hu : out.st.unkInit <;> simp [hu, hf] at h
  · by_cases h1 : o.unkFields <;> by_cases h2 : o.unkMsgs <;> simp [h1, h2] at h <;> subst h <;> simp [hn, h1, h2]
  · subst h; simp [hn]

/-! ### the counters count -/

def lookup {κ} [BEq κ] (k : κ) : List (κ × Nat) → Nat
  | [] => 0
  | (k', c) :: rest => if k' == k then c else lookup k rest

theorem lookup_bump_same {κ} [BEq κ] [LawfulBEq κ] (k : κ) (l : List (κ × Nat)) :
    lookup k (bump k l) = lookup k l + 1 := by
  induction l with
  | nil => simp [bump, lookup]
  | cons x xs ih =>
    obtain ⟨k', c⟩ := x
    by_cases h : k' == k
    · simp [bump, lookup, h]
    · simp [bump, lookup, h, ih]

theorem lookup_bump_other {κ} [BEq κ] [LawfulBEq κ] (k k2 : κ) (l : List (κ × Nat)) (hne : (k == k2) = false) :
    lookup k2 (bump k l) = lookup k2 l := by
  induction l with
  | nil =>
    simp [bump, lookup, hne]
  | cons x xs ih =>
    obtain ⟨k', c⟩ := x
    by_cases h : k' == k
    · have hk : k' = k := eq_of_beq h
      subst hk
      simp [bump, lookup, hne]
    · simp [bump, lookup, h, ih]

/-- Counting a sequence of keys with `bump` gives, for every key, its number of occurrences:
    the reported count of a message number (field) is exactly the number of records counted. -/
theorem bump_counts {κ} [BEq κ] [LawfulBEq κ] (ks : List κ) (k : κ) (l0 : List (κ × Nat)) :
    lookup k (ks.foldl (fun acc x => bump x acc) l0) = lookup k l0 + ks.count k := by
  induction ks generalizing l0 with
  | nil => simp
  | cons x xs ih =>
    simp only [List.foldl_cons]
    rw [ih]
    by_cases h : x == k
    · have : x = k := eq_of_beq h
      subst this
      rw [lookup_bump_same]
      simp [List.count_cons]
      omega
    · have h' : (x == k) = false := by simpa using h
      rw [lookup_bump_other _ _ _ h']
      simp [List.count_cons, h']

/-- keys of a `bump`-built list are pairwise distinct -/
theorem bump_keys_nodup {κ} [BEq κ] [LawfulBEq κ] (k : κ) (l : List (κ × Nat))
    (h : (l.map (·.1)).Nodup) : ((bump k l).map (·.1)).Nodup := by
  induction l with
  | nil => simp [bump]
  | cons x xs ih =>
    obtain ⟨k', c⟩ := x
    simp only [List.map_cons, List.nodup_cons] at h
    by_cases hk : k' == k
    · simp [bump, hk, h]
    · simp only [bump, hk, Bool.false_eq_true, ↓reduceIte, List.map_cons, List.nodup_cons]
      refine ⟨?_, ih h.2⟩
      intro hmem
      -- every key of `bump k xs` is a key of `xs` or `k`
      have : ∀ (l : List (κ × Nat)) (y : κ), y ∈ (bump k l).map (·.1) → y ∈ l.map (·.1) ∨ y = k := by
        intro l
        induction l with
        | nil => intro y hy; simp [bump] at hy; exact Or.inr hy
        | cons z zs ihz =>
          obtain ⟨kz, cz⟩ := z
          intro y hy
          by_cases hz : kz == k
          · simp [bump, hz] at hy; simp; rcases hy with h | h
            · exact Or.inl (Or.inl h)
            · exact Or.inl (Or.inr h)
          · simp [bump, hz] at hy
            rcases hy with h | h
            · exact Or.inl (by simp [h])
            · rcases ihz y (by simpa using h) with h' | h'
              · exact Or.inl (by simp at h'; simp [h'])
              · exact Or.inr h'
      rcases this xs k' hmem with h1 | h1
      · exact h.1 h1
      · subst h1; simp at hk

/-! ### the published lists are sorted -/

/-- insertion sort yields a list sorted for `lt` (no element is `lt` an earlier one) -/
def SortedBy {α} (lt : α → α → Bool) : List α → Prop
  | [] => True
  | x :: xs => (∀ y ∈ xs, lt y x = false) ∧ SortedBy lt xs

theorem mem_insertBy {α} (lt : α → α → Bool) (x y : α) (l : List α) :
    y ∈ insertBy lt x l ↔ y = x ∨ y ∈ l := by
  induction l with
  | nil => simp [insertBy]
  | cons z zs ih =>
    simp only [insertBy]
    split
    · simp
    · simp [ih]; constructor
      · rintro (h | h | h)
        · exact Or.inr (Or.inl h)
        · exact Or.inl h
        · exact Or.inr (Or.inr h)
      · rintro (h | h | h)
        · exact Or.inr (Or.inl h)
        · exact Or.inl h
        · exact Or.inr (Or.inr h)

theorem insertBy_sorted {α} (lt : α → α → Bool)
    (total : ∀ a b, lt a b = false → lt b a = false → True)
    (asym : ∀ a b, lt a b = true → lt b a = false)
    (trans : ∀ a b c, lt a b = false → lt b c = false → lt a c = false)
    (x : α) (l : List α) (h : SortedBy lt l) : SortedBy lt (insertBy lt x l) := by
  induction l with
  | nil => simp [insertBy, SortedBy]
  | cons z zs ih =>
    simp only [insertBy]
    obtain ⟨hz, hs⟩ := h
    split
    · rename_i hlt
      refine ⟨?_, hz, hs⟩
      intro y hy
      simp only [List.mem_cons] at hy
      rcases hy with rfl | hy
      · exact asym _ _ hlt
      · -- lt y z = false and lt z x = false (asym) give lt y x = false
        exact trans y z x (hz y hy) (asym _ _ hlt)
    · rename_i hnlt
      have hnlt' : lt x z = false := by simpa using hnlt
      refine ⟨?_, ih hs⟩
      intro y hy
      rw [mem_insertBy] at hy
      rcases hy with rfl | hy
      · exact hnlt'
      · exact hz y hy

theorem sortBy_sorted {α} (lt : α → α → Bool)
    (asym : ∀ a b, lt a b = true → lt b a = false)
    (trans : ∀ a b c, lt a b = false → lt b c = false → lt a c = false)
    (l : List α) : SortedBy lt (sortBy lt l) := by
  induction l with
  | nil => simp [sortBy, SortedBy]
  | cons x xs ih =>
    simp only [sortBy, List.foldr_cons]
    exact insertBy_sorted lt (fun _ _ _ _ => trivial) asym trans x _ ih

theorem mem_sortBy {α} (lt : α → α → Bool) (y : α) (l : List α) : y ∈ sortBy lt l ↔ y ∈ l := by
  induction l with
  | nil => simp [sortBy]
  | cons x xs ih =>
    simp only [sortBy, List.foldr_cons, mem_insertBy, List.mem_cons]
    simp only [sortBy] at ih
    rw [ih]

/-- the order used for unknown messages (by message number) -/
def ltM (a b : Nat × Nat) : Bool := decide (a.1 < b.1)
/-- the order used for unknown fields (message number, then field number) -/
def ltF (a b : (Nat × Nat) × Nat) : Bool := decide (a.1.1 < b.1.1 ∨ (a.1.1 = b.1.1 ∧ a.1.2 < b.1.2))

/-- both published lists are sorted and contain exactly the counted entries -/
theorem unknown_lists_sorted (um : List (Nat × Nat)) (uf : List ((Nat × Nat) × Nat)) :
    SortedBy ltM (sortBy ltM um) ∧ SortedBy ltF (sortBy ltF uf) ∧
    (∀ e, e ∈ sortBy ltM um ↔ e ∈ um) ∧ (∀ e, e ∈ sortBy ltF uf ↔ e ∈ uf) := by
  refine ⟨sortBy_sorted _ ?_ ?_ _, sortBy_sorted _ ?_ ?_ _, fun e => mem_sortBy _ e _, fun e => mem_sortBy _ e _⟩
  · intro a b h; simp [ltM] at *; omega
  · intro a b c h1 h2; simp [ltM] at *; omega
  · intro a b h; simp [ltF] at *; omega
  · intro a b c h1 h2; simp [ltF] at *; omega

example : lookup 7 ([7, 3, 7, 7, 3].foldl (fun acc x => bump x acc) []) = 3 := by decide

/-- **Framing (byte parser = record machine).** On the serialisation of any list of items that fit
    the definitions live when they are reached, the byte-level record loop of the decoder arrives
    at exactly the state the record machine `stepItems` computes (and at the loop over whatever
    follows), or stops with the same error class. The theorems of this file about the record machine
    are therefore theorems about the decoder on every such stream. -/
theorem byte_parser_is_record_machine (P : Profile) (limit : Nat) (cont : DecSt → DP) (its : List Item) (fuel : Nat)
    (st : DecSt) (n : Nat) (s : SpecSt) (tail : Bytes) (hfit : ItemsFit P st its)
    (hs : s.rest = serialize its ++ tail) (hl : n + (serialize its).length ≤ limit) (hn : st.n = n) :
    match stepItems P st its with
    | .ok st' =>
      runSpecD limit (decodeFileData P limit (fuel + its.length) st cont) n s =
        runSpecD limit (decodeFileData P limit fuel st' cont) (n + (serialize its).length)
          { s with rest := tail, taken := s.taken + (serialize its).length } ∧ st'.n = n + (serialize its).length
    | .stop o =>
      ∃ e, (runSpecD limit (decodeFileData P limit (fuel + its.length) st cont) n s).1 = .inl e ∧
        e.err = (exitOf o).err :=
  run_items P limit cont its fuel st n s tail hfit hs hl hn


theorem lookup_nil {κ} [BEq κ] (k : κ) : lookup k ([] : List (κ × Nat)) = 0 := rfl

/-- **The counts are exact, for whole files.** Lay out any list of items as a FIT file (any of the
    three header layouts) that `Decode` accepts. Then, for every message number `n`, the
    unknown-message counter holds the number of data records of the stream whose definition — the
    latest one for their local type — names `n` and `n` is not in the profile (`unkMAll`); and for
    every pair (message, field number), the unknown-field counter holds the number of records of
    that known message that carried that unlisted field number (`unkFAll`: one per field read).
    `finalize` publishes exactly these entries, sorted (`unknown_lists_sorted`), when the option is
    set (`lists_only_when_asked`). -/
theorem unknown_counts_exact (P : Profile) (o : Opts) (k : HdrKind) (g : Globals) (proto profile : Nat)
    (d0 : DefMsg) (b0 : Bool) (fs dev : List Bytes) (rest : List Item) (tail : Bytes) (stop : Stop) (st' : DecSt)
    (hp : proto < 256) (hp2 : proto / 16 ≤ protoMajorMax)
    (hwf0 : DefnWF d0 b0) (hg : d0.global = mnFileId) (hkn : P.known mnFileId = true)
    (hlen : (serialize (.defn d0 b0 :: .data d0.localT fs dev :: rest)).length < 4294967296)
    (hfit : ItemsFitD P (List.replicate 16 none) (.defn d0 b0 :: .data d0.localT fs dev :: rest))
    (hrun : runItems P (afterHeader k g proto profile (serialize (.defn d0 b0 :: .data d0.localT fs dev :: rest)).length).hdr g
      (.defn d0 b0 :: .data d0.localT fs dev :: rest)
      (afterHeader k g proto profile (serialize (.defn d0 b0 :: .data d0.localT fs dev :: rest)).length).crc = .ok st') :
    let out := (decodeSpec P o .full g
      (frameBytesK k proto profile (serialize (.defn d0 b0 :: .data d0.localT fs dev :: rest)) ++ tail) stop).1
    (∀ n, lookup n out.st.unkM =
      (unkMAll P (List.replicate 16 none) (.defn d0 b0 :: .data d0.localT fs dev :: rest)).count n) ∧
    (∀ key, lookup key out.st.unkF =
      (unkFAll P (List.replicate 16 none) (.defn d0 b0 :: .data d0.localT fs dev :: rest)).count key) := by
  intro out
  have e := decode_frame_ok P o k g proto profile d0 b0 fs dev rest tail stop st' hp hp2 hwf0 hg hkn hlen hfit hrun
  obtain ⟨hm, hf⟩ := runItems_unk P _ g _ _ st' hrun
  have hfin : ∀ x : Outcome, (finalize o x).st.unkM = x.st.unkM ∧ (finalize o x).st.unkF = x.st.unkF := by
    intro x; unfold finalize; split <;> exact ⟨rfl, rfl⟩
  have e1 : out.st.unkM = st'.unkM := by
    show (decodeSpec P o .full g _ stop).1.st.unkM = _
    rw [e, (hfin _).1]; rfl
  have e2 : out.st.unkF = st'.unkF := by
    show (decodeSpec P o .full g _ stop).1.st.unkF = _
    rw [e, (hfin _).2]; rfl
  refine ⟨fun n => ?_, fun key => ?_⟩
  · rw [e1, hm]
    unfold bumpAll
    rw [bump_counts, lookup_nil, Nat.zero_add]
  · rw [e2, hf]
    unfold bumpAll
    rw [bump_counts, lookup_nil, Nat.zero_add]

/-- what one record contributes, spelled out: a data record counts its message number iff the
    definition live for its local type names a message the profile does not know, and counts
    (message, field) for each of its fields the profile does not list when it does know the message -/
example (P : Profile) (defs : List (Option DefMsg)) (l : Nat) (fs dev : List Bytes) (dm : DefMsg)
    (h : defs.getD (l % 16) none = some dm) :
    unkMOf P defs (.data l fs dev) = (if P.known dm.global then [] else [dm.global]) ∧
    unkFOf P defs (.data l fs dev) = (if P.known dm.global then unkFRec P dm dm.fields fs else []) := by
  simp only [unkMOf, unkFOf, itemLocal, itemRaws, h, and_self]

end Fit.Props.C16
