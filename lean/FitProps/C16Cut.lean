import FitProps.C16Core
import FitProofs.PartialFile
/-!
  C16, last clause: when decoding fails part-way the unknown-item lists are still produced and account
  for every record completed before the failure.  The counters only grow while a record is read
  (`oneRecord_cnt`), so what an early exit carries is at least what the complete records counted.
-/
namespace Fit.Props.C16
open Fit

/-- the counters of `b` are at least those of `a`, key by key -/
def CntGE (a b : DecSt) : Prop :=
  (∀ k, lookup k a.unkM ≤ lookup k b.unkM) ∧ (∀ k, lookup k a.unkF ≤ lookup k b.unkF)

theorem CntGE.refl (a : DecSt) : CntGE a a := ⟨fun _ => Nat.le_refl _, fun _ => Nat.le_refl _⟩

theorem lookup_le_bump {κ} [BEq κ] [LawfulBEq κ] (k k' : κ) (l : List (κ × Nat)) : lookup k l ≤ lookup k (bump k' l) := by
  by_cases h : (k' == k) = true
  · have : k' = k := by simpa using h
    subst this
    rw [lookup_bump_same]; omega
  · rw [lookup_bump_other k' k l (by simpa using h)]; exact Nat.le_refl _

theorem CntGE.bumpM {a b : DecSt} (h : CntGE a b) (n : Nat) : CntGE a { b with unkM := bump n b.unkM } :=
  ⟨fun k => Nat.le_trans (h.1 k) (lookup_le_bump k n b.unkM), h.2⟩

theorem CntGE.bumpF {a b : DecSt} (h : CntGE a b) (key : Nat × Nat) : CntGE a { b with unkF := bump key b.unkF } :=
  ⟨h.1, fun k => Nat.le_trans (h.2 k) (lookup_le_bump k key b.unkF)⟩

/-- a state differing from `b` in other components only -/
theorem CntGE.of_eq {a b b' : DecSt} (h : CntGE a b) (e1 : b'.unkM = b.unkM) (e2 : b'.unkF = b.unkF) : CntGE a b' :=
  ⟨fun k => by rw [e1]; exact h.1 k, fun k => by rw [e2]; exact h.2 k⟩

theorem rd_cnt (a st : DecSt) (k : Nat) (c : Bytes → DecSt → DP) (hst : CntGE a st)
    (hc : ∀ bs st', CntGE a st' → ExitsSat (CntGE a) (c bs st')) : ExitsSat (CntGE a) (rd st k c) :=
  ⟨fun _ => hst, fun bs => hc bs _ hst⟩

theorem parseFields_cnt (a : DecSt) (P : Profile) (dm : DefMsg) (known : Bool) (fds : List FieldDef)
    (m : Option Msg) (st : DecSt) (c : Option Msg → DecSt → DP) (hst : CntGE a st)
    (hc : ∀ m st', CntGE a st' → ExitsSat (CntGE a) (c m st')) : ExitsSat (CntGE a) (parseFields P dm known fds m st c) := by
  induction fds generalizing m st with
  | nil => exact hc m st hst
  | cons fd fds ih =>
    unfold parseFields
    dsimp only
    apply rd_cnt
    · split
      · exact hst.bumpF _
      · exact hst
    · intro raw st2 h2
      split
      · exact h2
      · exact h2
      · exact ih _ _ (h2.of_eq rfl rfl)

theorem skipDev_cnt (a : DecSt) (ds : List DevDesc) (st : DecSt) (c : DecSt → DP) (hst : CntGE a st)
    (hc : ∀ st', CntGE a st' → ExitsSat (CntGE a) (c st')) : ExitsSat (CntGE a) (skipDev ds st c) := by
  induction ds generalizing st with
  | nil => exact hc st hst
  | cons d ds ih =>
    unfold skipDev
    exact rd_cnt a st _ _ hst fun _ st2 h2 => ih st2 h2

theorem dataPre_cnt (a : DecSt) (P : Profile) (hb : Nat) (compressed : Bool) (st : DecSt) (hst : CntGE a st) :
    CntGE a (dataPre P hb compressed st).st := by
  unfold dataPre
  dsimp only
  repeat' split
  all_goals first
    | exact hst
    | exact hst.bumpM _
    | exact (hst.bumpM _).of_eq rfl rfl
    | exact hst.of_eq rfl rfl

theorem parseData_cnt (a : DecSt) (P : Profile) (hb : Nat) (compressed : Bool) (st : DecSt)
    (c : Option Msg → DecSt → DP) (hst : CntGE a st)
    (hc : ∀ m st', CntGE a st' → ExitsSat (CntGE a) (c m st')) : ExitsSat (CntGE a) (parseData P hb compressed st c) := by
  rw [parseData_pre]
  have hp := dataPre_cnt a P hb compressed st hst
  cases hd : dataPre P hb compressed st with
  | stop b st' =>
    rw [hd] at hp
    cases b <;> exact hp
  | go dm m st' =>
    rw [hd] at hp
    exact parseFields_cnt a P dm _ dm.fields m st' _ hp fun m st2 h2 =>
      skipDev_cnt a dm.dev st2 _ h2 fun st3 h3 => hc m st3 h3

theorem parseDefinition_cnt (a : DecSt) (P : Profile) (hb : Nat) (st : DecSt)
    (c : DefMsg → DecSt → DP) (hst : CntGE a st)
    (hc : ∀ dm st', CntGE a st' → ExitsSat (CntGE a) (c dm st')) : ExitsSat (CntGE a) (parseDefinition P hb st c) := by
  unfold parseDefinition
  dsimp only
  apply rd_cnt a _ _ _ hst
  intro _ st1 h1
  apply rd_cnt a _ _ _ h1
  intro b st2 h2
  split
  · exact h2
  · generalize (if (b.headD 0).toNat = 0 then Endian.le else Endian.be) = arch
    apply rd_cnt a _ _ _ h2
    intro g st3 h3
    split
    · exact h3
    · apply rd_cnt a _ _ _ h3
      intro nf st4 h4
      split
      · exact hc _ _ h4
      · apply rd_cnt a _ _ _ h4
        intro fb st5 h5
        split
        · exact h5
        · split
          · apply rd_cnt a _ _ _ h5
            intro nd st6 h6
            apply rd_cnt a _ _ _ h6
            intro db st7 h7
            exact hc _ _ h7
          · exact hc _ _ h5

/-- **while one record is read the counters only grow**: every early exit of a record carries
    counters at least those the record started with -/
theorem oneRecord_cnt (P : Profile) (limit : Nat) (st : DecSt) : ExitsSat (CntGE st) (oneRecord P limit st) := by
  unfold oneRecord
  simp only [decodeFileData]
  split
  · apply rd_cnt _ _ _ _ (CntGE.refl st)
    intro hbs st1 h1
    have addK : ∀ (m : Option Msg) (st' : DecSt), CntGE st st' →
        ExitsSat (CntGE st) (match addMsg P m st' with
          | none => dpanic st'
          | some st => (DProg.done st : DP)) := by
      intro m st' h'
      cases addMsg P m st' with
      | none => exact h'
      | some _ => trivial
    split
    · exact parseData_cnt _ P _ true st1 _ h1 addK
    · split
      · exact parseDefinition_cnt _ P _ st1 _ h1 fun _ _ _ => trivial
      · exact parseData_cnt _ P _ false st1 _ h1 addK
  · trivial

/-- **The lists of a decode that fails part-way account for every completed record.** A frame (header
    of any of the three layouts) cut — or read through a reader that fails — inside a record, after the
    file_id records and the complete records `done`: `Decode` reports an error, and the counters it
    publishes (under the options that ask for them, `lists_only_when_asked`; sorted,
    `unknown_lists_sorted`) are, key by key, at least the exact counts of the complete records
    (`unknown_counts_exact`'s `unkMAll` / `unkFAll`); they can exceed them only by what the record in
    progress had already contributed when the stream ended. -/
theorem unknown_counts_on_cut (P : Profile) (o : Opts) (k : HdrKind) (g : Globals) (proto profile : Nat)
    (d0 : DefMsg) (b0 : Bool) (fs dev : List Bytes) (done : List Item) (it : Item) (more : List Item) (j : Nat)
    (stop : Stop) (st1 : DecSt)
    (hp : proto < 256) (hp2 : proto / 16 ≤ protoMajorMax)
    (hwf0 : DefnWF d0 b0) (hg : d0.global = mnFileId) (hkn : P.known mnFileId = true)
    (L : Nat) (hL : L = (serialize (.defn d0 b0 :: .data d0.localT fs dev :: (done ++ it :: more))).length)
    (hlen : L < 4294967296)
    (hfit : ItemsFitD P (List.replicate 16 none) (.defn d0 b0 :: .data d0.localT fs dev :: (done ++ it :: more)))
    (hrun : runItems P (afterHeader k g proto profile L).hdr g (.defn d0 b0 :: .data d0.localT fs dev :: done)
      (afterHeader k g proto profile L).crc = .ok st1)
    (hj : j < (serializeItem it).length) :
    let out := (decodeSpec P o .full g (u8 k.size :: (hdrTail k proto profile L ++
        (serialize (.defn d0 b0 :: .data d0.localT fs dev :: done) ++ (serializeItem it).take j))) stop).1
    ¬ out.success ∧
    (∀ n, (unkMAll P (List.replicate 16 none) (.defn d0 b0 :: .data d0.localT fs dev :: done)).count n ≤ lookup n out.st.unkM) ∧
    (∀ key, (unkFAll P (List.replicate 16 none) (.defn d0 b0 :: .data d0.localT fs dev :: done)).count key ≤ lookup key out.st.unkF) := by
  intro out
  obtain ⟨e, he, _, hcnt⟩ := decode_cut_partial P o k g proto profile d0 b0 fs dev done it more j stop st1 hp hp2 hwf0 hg hkn
    L hL hlen hfit hrun hj CntGE (fun limit st => oneRecord_cnt P limit st)
  obtain ⟨hm, hf⟩ := runItems_unk P _ g _ _ st1 hrun
  have hfin : ∀ x : Outcome, (finalize o x).st.unkM = x.st.unkM ∧ (finalize o x).st.unkF = x.st.unkF := by
    intro x; unfold finalize; split <;> exact ⟨rfl, rfl⟩
  have hto : e.toOutcome.st = e.st := by unfold ErrExit.toOutcome; cases e.err <;> rfl
  have e1 : out.st.unkM = e.st.unkM := by
    show (decodeSpec P o .full g _ stop).1.st.unkM = _
    rw [he, (hfin _).1, hto]
  have e2 : out.st.unkF = e.st.unkF := by
    show (decodeSpec P o .full g _ stop).1.st.unkF = _
    rw [he, (hfin _).2, hto]
  refine ⟨?_, fun n => ?_, fun key => ?_⟩
  · show ¬ (decodeSpec P o .full g _ stop).1.success
    rw [he]
    intro hs
    have fe := finalize_err o e.toOutcome
    exact toOutcome_not_success e ⟨by rw [← fe.1]; exact hs.1, by rw [← fe.2.1]; exact hs.2⟩
  · rw [e1]
    have := hcnt.1 n
    rw [hm] at this
    unfold bumpAll at this
    rw [bump_counts, lookup_nil, Nat.zero_add] at this
    exact this
  · rw [e2]
    have := hcnt.2 key
    rw [hf] at this
    unfold bumpAll at this
    rw [bump_counts, lookup_nil, Nat.zero_add] at this
    exact this

end Fit.Props.C16
