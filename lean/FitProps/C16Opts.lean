import FitModel.Options
import FitModel.Decode
/-!
C16, the option list itself: the record the decoder works with depends only on *which* options were
given — not on their order, not on repetitions — and an option never takes back what an earlier one
switched on.
-/
namespace Fit.Props.C16
open Fit

theorem foldl_apply1 (l : List DOpt) (o : Opts) :
    l.foldl Opts.apply1 o =
      { logger := o.logger || l.any DOpt.isLogger,
        unkFields := o.unkFields || l.contains .unkFields,
        unkMsgs := o.unkMsgs || l.contains .unkMsgs } := by
  induction l generalizing o with
  | nil => simp
  | cons x xs ih =>
    rw [List.foldl_cons, ih]
    cases x <;> simp [Opts.apply1, DOpt.isLogger]

/-- what a list of options amounts to -/
theorem applyOpts_eq (l : List DOpt) :
    applyOpts l =
      { logger := l.any DOpt.isLogger, unkFields := l.contains .unkFields, unkMsgs := l.contains .unkMsgs } := by
  unfold applyOpts
  rw [foldl_apply1]
  simp

/-- two option lists with the same members (any order, any repetitions) configure the same decoder;
    `WithLogger` and `WithStdLogger` are interchangeable for everything but where the log goes -/
theorem options_order_irrelevant (l₁ l₂ : List DOpt)
    (hlog : l₁.any DOpt.isLogger = l₂.any DOpt.isLogger)
    (hf : DOpt.unkFields ∈ l₁ ↔ DOpt.unkFields ∈ l₂) (hm : DOpt.unkMsgs ∈ l₁ ↔ DOpt.unkMsgs ∈ l₂) :
    applyOpts l₁ = applyOpts l₂ := by
  rw [applyOpts_eq, applyOpts_eq, hlog]
  have e1 : l₁.contains DOpt.unkFields = l₂.contains DOpt.unkFields := by
    rw [Bool.eq_iff_iff]; simpa using hf
  have e2 : l₁.contains DOpt.unkMsgs = l₂.contains DOpt.unkMsgs := by
    rw [Bool.eq_iff_iff]; simpa using hm
  rw [e1, e2]

theorem options_perm (l₁ l₂ : List DOpt) (h : l₁.Perm l₂) : applyOpts l₁ = applyOpts l₂ := by
  apply options_order_irrelevant
  · rw [Bool.eq_iff_iff]; simp only [List.any_eq_true]
    exact ⟨fun ⟨x, hx, hp⟩ => ⟨x, h.mem_iff.mp hx, hp⟩, fun ⟨x, hx, hp⟩ => ⟨x, h.mem_iff.mpr hx, hp⟩⟩
  · exact h.mem_iff
  · exact h.mem_iff

/-- an option given later never switches off what the options before it switched on -/
theorem options_only_add (l : List DOpt) (x : DOpt) :
    ((applyOpts l).logger = true → (applyOpts (l ++ [x])).logger = true) ∧
    ((applyOpts l).unkFields = true → (applyOpts (l ++ [x])).unkFields = true) ∧
    ((applyOpts l).unkMsgs = true → (applyOpts (l ++ [x])).unkMsgs = true) := by
  simp only [applyOpts_eq, List.any_append, List.contains_append]
  refine ⟨?_, ?_, ?_⟩ <;> intro h <;> simp at h ⊢ <;> simp [h]

/-- so the whole outcome of a decode is the same for both lists -/
theorem decode_options_order (P : Profile) (l₁ l₂ : List DOpt) (h : l₁.Perm l₂) (mode : Mode) (g : Globals) (r : Reader) :
    decode P (applyOpts l₁) mode g r = decode P (applyOpts l₂) mode g r := by
  rw [options_perm l₁ l₂ h]

/-- the orders the run uses: the standard logger after the list options keeps both lists switched on -/
example : applyOpts [.unkFields, .unkMsgs, .stdLogger] = { logger := true, unkFields := true, unkMsgs := true } := by decide
example : applyOpts [.stdLogger, .unkFields, .unkMsgs] = applyOpts [.unkMsgs, .unkFields, .logger, .unkFields] := by decide

end Fit.Props.C16
