import FitModel.LatLng
import FitProps.C17Float
/-!
  C17 — coordinate and time value types convert exactly and flag invalids consistently.

  Integer statements are proved here, kernel-only.  The one inexact operation of latlng.go,
  `int32(degrees * (2^31/180))`, is stated under the IEEE-754 standard-model hypothesis in
  `from_degrees_within_one` (the hypothesis is part of the statement, not an axiom); the
  correspondence run enumerates all 2^32 values against the real code (thorough tier).
-/
namespace Fit.Props.C17
open Fit Fit.LatLng

def inRange32 (s : Int) : Prop := -2147483648 ≤ s ∧ s ≤ 2147483647

/-- Latitude: invalid exactly for the sentinel or outside ±90° — except for +90° itself
    (semicircles 2^30), which `NewLatitude` flags invalid while −90° is valid: known finding D14. -/
theorem lat_invalid_iff_partial (s : Int) (hs : inRange32 s) (h : s ≠ 1073741824) :
    invalid (newLatitude s) = true ↔ (s = 2147483647 ∨ s < -1073741824 ∨ s > 1073741824) := by
  unfold invalid newLatitude sint32Invalid inRange32 at *
  constructor
  · intro hi
    split at hi
    · left; assumption
    · split at hi
      · rename_i h2; rcases h2 with h2 | h2
        · right; left; exact h2
        · right; right; omega
      · simp at hi; omega
  · intro hi
    split
    · simp
    · split
      · simp
      · rename_i h1 h2
        simp
        omega

/-- D14: exactly +90° is flagged invalid although it is a legal latitude -/
theorem lat_pole_counterexample :
    invalid (newLatitude 1073741824) = true ∧ invalid (newLatitude (-1073741824)) = false ∧
    (1073741824 : Int) * 180 = 90 * 2147483648 := by decide

/-- Longitude: invalid exactly for the sentinel -/
theorem lng_invalid_iff (s : Int) : invalid (newLongitude s) = true ↔ s = 2147483647 := by
  simp [invalid, newLongitude, sint32Invalid]

/-- `Semicircles` returns the stored value whenever the coordinate is valid -/
theorem semicircles_id (s : Int) :
    (invalid (newLatitude s) = false → newLatitude s = s) ∧ newLongitude s = s := by
  refine ⟨?_, rfl⟩
  unfold invalid newLatitude sint32Invalid
  intro h
  split
  · rename_i h1; simp at h; omega
  · split
    · rename_i h1 h2; simp at h; omega
    · rfl

/-- `Degrees` is NaN iff invalid, else exactly semicircles × 180 / 2^31; the numerator is below
    2^53 in magnitude, so the float64 evaluation `float64(s) * (180/2^31)` is exact (both factors
    and the product are representable: 180/2^31 = 45·2^-29). -/
theorem degrees_exact (stored : Int) (hs : inRange32 stored) :
    (degreesNum stored = none ↔ invalid stored = true) ∧
    (invalid stored = false → degreesNum stored = some (stored * 180) ∧
      -9007199254740992 < stored * 180 ∧ stored * 180 < 9007199254740992) := by
  unfold degreesNum inRange32 at *
  constructor
  · cases h : invalid stored <;> simp
  · intro h
    simp only [h, Bool.false_eq_true, ↓reduceIte, true_and]
    omega

/-- FIT time ↔ seconds: a bijection on all 32-bit second counts (no `time.Duration` saturation
    can occur: 2^32 · 10^9 < 2^63) -/
theorem time_bijection (v : Nat) (hv : v < 4294967296) :
    encodeTime (decodeDateTime v) = v ∧ (v : Int) * 1000000000 < 9223372036854775807 := by
  unfold encodeTime decodeDateTime clampDuration toUnsigned
  have h1 : ¬ ((v : Int) * 1000000000 > 9223372036854775807) := by omega
  have h2 : ¬ ((v : Int) * 1000000000 < -9223372036854775808) := by omega
  simp only [h1, h2, ↓reduceIte]
  constructor
  · rw [Int.mul_tdiv_cancel _ (by decide)]
    simp only [Nat.reducePow]
    omega
  · omega

/-- whole seconds in range come back unchanged -/
theorem time_roundtrip (secs : Int) (h0 : 0 ≤ secs) (h1 : secs < 4294967296) :
    decodeDateTime (encodeTime secs) = secs := by
  have := (time_bijection secs.toNat (by omega)).1
  have e : ((secs.toNat : Nat) : Int) = secs := Int.toNat_of_nonneg h0
  unfold decodeDateTime at *
  rw [e] at this
  rw [this]
  exact e

/-- `IsBaseTime` is true only at zero -/
theorem base_time_iff (v : Nat) : isBaseTime (decodeDateTime v) = true ↔ v = 0 := by
  simp [isBaseTime, decodeDateTime]

/-- times before the epoch or far away wrap modulo 2^32 (e.g. Go's zero time saturates) -/
example : encodeTime (-62766662400) = 3661529852 := by decide +kernel

example : invalid (newLatitude 1073741823) = false ∧ newLatitude 123 = 123 := by decide

end Fit.Props.C17
