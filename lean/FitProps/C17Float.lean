import Mathlib.Tactic.Linarith
import Mathlib.Tactic.Positivity
import Mathlib.Tactic.NormNum
import Mathlib.Algebra.Order.Floor.Defs
import Mathlib.Algebra.Order.Floor.Ring
import Mathlib.Data.Rat.Floor
/-!
  C17, the floating-point step: `NewLatitudeDegrees(l.Degrees())` / `NewLongitudeDegrees(…)`.

  `Degrees()` is exact (FitProps/C17.lean: `degrees_exact`).  Constructing from degrees computes
  `int32(deg * c)` where `c` is the float64 nearest to 2^31/180 and the product is rounded once.
  Under the IEEE-754 standard model (each rounding has relative error at most 2^-53) the result is
  within one semicircle of the original value.  The rounding behaviour is a *hypothesis* of the
  theorem, visible in its statement; nothing is assumed as an axiom.
-/
namespace Fit.Props.C17

/-- `int32(x)`: truncation toward zero -/
def truncZ (x : ℚ) : ℤ := if 0 ≤ x then ⌊x⌋ else ⌈x⌉

theorem trunc_near (x : ℚ) (s : ℤ) (h : |x - s| < 1) : |truncZ x - s| ≤ 1 := by
  unfold truncZ
  rw [abs_lt] at h
  obtain ⟨h1, h2⟩ := h
  split
  · -- ⌊x⌋ ∈ {s-1, s}
    have hf1 : (s : ℚ) - 1 < x := by linarith
    have hf2 : x < s + 1 := by linarith
    have a1 : s - 1 ≤ ⌊x⌋ := by
      rw [Int.le_floor]; push_cast; linarith
    have a2 : ⌊x⌋ ≤ s := by
      have : ⌊x⌋ < s + 1 := by rw [Int.floor_lt]; push_cast; linarith
      omega
    rw [abs_le]; constructor <;> omega
  · have a1 : s ≤ ⌈x⌉ := by
      have : s - 1 < ⌈x⌉ := by rw [Int.lt_ceil]; push_cast; linarith
      omega
    have a2 : ⌈x⌉ ≤ s + 1 := by
      rw [Int.ceil_le]; push_cast; linarith
    rw [abs_le]; constructor <;> omega

/-- Two roundings with relative error ≤ 2^-53 move a value of magnitude ≤ 2^31 by less than 1. -/
theorem two_roundings_small (s : ℤ) (d1 d2 : ℚ) (hs : |(s : ℚ)| ≤ 2 ^ 31)
    (h1 : |d1| ≤ 1 / 2 ^ 53) (h2 : |d2| ≤ 1 / 2 ^ 53) :
    |(s : ℚ) * (1 + d1) * (1 + d2) - s| < 1 := by
  have e : (s : ℚ) * (1 + d1) * (1 + d2) - s = s * (d1 + d2 + d1 * d2) := by ring
  rw [e, abs_mul]
  have hb : |d1 + d2 + d1 * d2| ≤ 1 / 2 ^ 53 + 1 / 2 ^ 53 + (1 / 2 ^ 53) * (1 / 2 ^ 53) := by
    calc |d1 + d2 + d1 * d2| ≤ |d1 + d2| + |d1 * d2| := abs_add_le _ _
      _ ≤ |d1| + |d2| + |d1| * |d2| := by
        have := abs_add_le d1 d2
        rw [abs_mul]; linarith
      _ ≤ _ := by
        have := mul_le_mul h1 h2 (abs_nonneg _) (by positivity)
        linarith
  calc |(s : ℚ)| * |d1 + d2 + d1 * d2|
      ≤ 2 ^ 31 * (1 / 2 ^ 53 + 1 / 2 ^ 53 + (1 / 2 ^ 53) * (1 / 2 ^ 53)) :=
        mul_le_mul hs hb (abs_nonneg _) (by positivity)
    _ < 1 := by norm_num

/-- **Round trip within one semicircle.**  `rnd` is the rounding of float64 arithmetic; `c` the
    stored constant `2^31/180`.  For every semicircle value `s` in the 32-bit range the degrees
    value `s·180/2^31` (exact) multiplied by the rounded constant, rounded, and truncated to an
    integer is within one of `s`. -/
theorem from_degrees_within_one (s : ℤ) (hs : |(s : ℚ)| ≤ 2 ^ 31)
    (c prod : ℚ)
    (hc : ∃ d1, |d1| ≤ 1 / 2 ^ 53 ∧ c = (2 ^ 31 / 180) * (1 + d1))
    (hp : ∃ d2, |d2| ≤ 1 / 2 ^ 53 ∧ prod = ((s : ℚ) * 180 / 2 ^ 31) * c * (1 + d2)) :
    |truncZ prod - s| ≤ 1 := by
  obtain ⟨d1, hd1, rfl⟩ := hc
  obtain ⟨d2, hd2, rfl⟩ := hp
  apply trunc_near
  have e : (s : ℚ) * 180 / 2 ^ 31 * (2 ^ 31 / 180 * (1 + d1)) * (1 + d2) = s * (1 + d1) * (1 + d2) := by
    field_simp
  rw [e]
  exact two_roundings_small s d1 d2 hs hd1 hd2

end Fit.Props.C17
