import FitModel.Items
import FitModel.Gen.Profile
import FitProofs.ExpandEq
import FitProofs.ExpandEvent
import FitProofs.RunningSum
/-!
  C18 — component fields expand per profile, with per-file accumulation.

  `expand` (FitModel/File.lean) follows the generated `expandComponents` methods statement by
  statement, including three deviations from the profile's component rules that are recorded as
  known findings (D10, D11, D12 in DESIGN.md): the theorems `…_counterexample` exhibit them,
  `…_partial` theorems state what holds.  `expand_eq_spec` shows that nothing else separates the code
  from a rule-driven reading of the profile; `record_distance_running_sum` (FitProofs/RunningSum.lean)
  is the property's last sentence for the records of a file: the accumulated distance is the running
  sum of the rollover-corrected deltas on top of the accumulator the decoder found.
-/
namespace Fit.Props.C18
open Fit

/-- An invalid source leaves the message untouched. -/
theorem invalid_source_untouched (pm : PMsg) (m : Msg) (src dst : String) (inv si : Nat)
    (hs : pm.idx src = some si) (hv : m.getU si = some inv) :
    copyIfValid pm m src dst inv = m := by
  unfold copyIfValid
  rw [hs]
  cases pm.idx dst with
  | none => rfl
  | some di => simp [hv]

/-- A valid source is copied, zero-extended, into its destination and nothing else changes. -/
theorem valid_source_copied (pm : PMsg) (m : Msg) (src dst : String) (inv si di v : Nat)
    (hs : pm.idx src = some si) (hd : pm.idx dst = some di) (hv : m.getU si = some v) (hne : v ≠ inv) :
    copyIfValid pm m src dst inv = m.setU di v := by
  unfold copyIfValid
  simp [hs, hd, hv, hne]

/-- the two 12-bit halves of compressed_speed_distance as the profile defines them -/
def csdSpeed (b0 b1 : Nat) : Nat := (b0 + 256 * b1) % 4096
def csdDistance (b1 b2 : Nat) : Nat := (b1 / 16 + 16 * b2) % 4096

/-- speed = low 12 bits of the 24-bit little-endian value (bytes < 256) -/
theorem csd_speed_slice (b0 b1 : Nat) (h0 : b0 < 256) (h1 : b1 < 256) :
    (b0 ||| ((b1 &&& 0x0F) <<< 8)) = csdSpeed b0 b1 := by
  unfold csdSpeed
  have : ∀ x : Fin 256, ∀ y : Fin 256, (x.val ||| ((y.val &&& 0x0F) <<< 8)) = (x.val + 256 * y.val) % 4096 := by
    decide +kernel
  exact this ⟨b0, h0⟩ ⟨b1, h1⟩

/-- D10 (known finding): the distance half loses its top four bits, because `byte << 4` is
    evaluated in uint8 before the conversion to uint32 … -/
theorem csd_distance_counterexample :
    ((0x12 >>> 4) ||| ((0xAB <<< 4) % 256)) = 0xB1 ∧ csdDistance 0x12 0xAB = 0xAB1 := by decide

/-- … so the expanded distance is right exactly when the high nibble of byte 2 is clear. -/
theorem csd_distance_partial (b1 b2 : Nat) (h1 : b1 < 256) (h2 : b2 < 16) :
    ((b1 >>> 4) ||| ((b2 <<< 4) % 256)) = csdDistance b1 b2 := by
  unfold csdDistance
  have : ∀ x : Fin 256, ∀ y : Fin 16, ((x.val >>> 4) ||| ((y.val <<< 4) % 256)) = (x.val / 16 + 16 * y.val) % 4096 := by
    decide +kernel
  exact this ⟨b1, h1⟩ ⟨b2, h2⟩

/-- A correctly constructed accumulator adds the rollover-corrected delta modulo 2^bits. -/
theorem accumulate_spec (bits : Nat) (a : Accu) (v : Nat) (hm : a.mask = 2 ^ bits - 1) (hb : bits ≤ 32)
    (hv : v < 2 ^ 32) (hl : a.last < 2 ^ 32) :
    (a.accumulate v).2 = (a.value + (v + 2 ^ 32 - a.last) % 2 ^ bits) % 2 ^ 32 ∧
    (a.accumulate v).1.last = v := by
  unfold Accu.accumulate
  simp only [hm, Nat.and_two_pow_sub_one_eq_mod]
  constructor
  · congr 2
    exact (Nat.mod_mod_of_dvd _ (Nat.pow_dvd_pow 2 hb))
  · trivial

/-- D11 (known finding): total_cycles and accumulated_power use `new(uint32Accumulator)`, whose
    mask is 0, so the accumulated value never moves. -/
theorem accumulator_mask_counterexample (v : Nat) :
    (Accu.zero.accumulate v).2 = 0 := by
  simp [Accu.accumulate, Accu.zero]

/-- D12 (known finding): the accumulators are package-level; a second file starts from the first
    file's state instead of zero. -/
theorem accumulator_lifetime_counterexample :
    let a1 := ((Accu.new 12).accumulate 100).1      -- state left behind by file 1
    (a1.accumulate 50).2 ≠ ((Accu.new 12).accumulate 50).2 := by decide

/-- the event kinds with component rules, as in the profile -/
theorem event_constants : evSportPoint = Gen.evSportPoint ∧ evFrontGearChange = Gen.evFrontGearChange ∧
    evRearGearChange = Gen.evRearGearChange := by decide

/-- gear data: four bytes of `data`, least-significant first -/
theorem gear_bytes (pm : PMsg) (m : Msg) (d a b c e : Nat) (hd : d ≠ 0xFFFFFFFF)
    (h1 : pm.idx "RearGearNum" = some a) (h2 : pm.idx "RearGear" = some b)
    (h3 : pm.idx "FrontGearNum" = some c) (h4 : pm.idx "FrontGear" = some e) :
    expandEventData pm m d evRearGearChange =
      (((m.setU a (d % 256)).setU b ((d / 256) % 256)).setU c ((d / 65536) % 256)).setU e ((d / 16777216) % 256) := by
  unfold expandEventData
  simp [hd, h1, h2, h3, h4, evRearGearChange, evSportPoint]

/-- score data: two 16-bit halves of `data` -/
theorem score_halves (pm : PMsg) (m : Msg) (d s o : Nat) (hd : d ≠ 0xFFFFFFFF)
    (h1 : pm.idx "Score" = some s) (h2 : pm.idx "OpponentScore" = some o) :
    expandEventData pm m d evSportPoint = (m.setU s (d % 65536)).setU o ((d / 65536) % 65536) := by
  unfold expandEventData
  simp [hd, h1, h2]

/-- an invalid `data` value expands nothing -/
theorem event_invalid_untouched (pm : PMsg) (m : Msg) (ev : Nat) :
    expandEventData pm m 0xFFFFFFFF ev = m := by
  simp [expandEventData]

/-- every component field the model refers to exists in the regenerated message structs -/
theorem gen_component_fields_exist :
    (["Altitude", "EnhancedAltitude", "Speed", "EnhancedSpeed", "CompressedSpeedDistance", "Distance",
      "Cycles", "TotalCycles", "CompressedAccumulatedPower", "AccumulatedPower"].all
        fun n => (Gen.m20.idx n).isSome) = true ∧
    (["AvgSpeed", "EnhancedAvgSpeed", "MaxSpeed", "EnhancedMaxSpeed", "AvgAltitude", "EnhancedAvgAltitude",
      "MaxAltitude", "EnhancedMaxAltitude", "MinAltitude", "EnhancedMinAltitude"].all
        fun n => (Gen.m18.idx n).isSome && (Gen.m19.idx n).isSome) = true ∧
    (["AvgAltitude", "EnhancedAvgAltitude", "MaxAltitude", "EnhancedMaxAltitude", "MinAltitude",
      "EnhancedMinAltitude"].all fun n => (Gen.m142.idx n).isSome) = true ∧
    (["Event", "Data16", "Data", "Score", "OpponentScore", "RearGearNum", "RearGear", "FrontGearNum",
      "FrontGear"].all fun n => (Gen.m21.idx n).isSome) = true := by decide +kernel

/-- every container slot that holds a component-bearing message stores it expanded: routing
    calls `expand` for exactly the five message kinds, in whatever container holds them
    (this is `containerAdd`; the correspondence run checks all containers of the real code). -/
theorem containers_expand (P : Profile) (c : Container) (sl : List (List Msg)) (m : Msg) (g : Globals) (i : Nat)
    (hs : slotFor c m.num = some i) (he : m.num ∈ expandSet) :
    (containerAdd P c sl m g).2 = (expand P m g).2 := by
  simp [containerAdd, hs, he]

/-- **lap, session and segment_lap: the transcribed expansion is the profile's rules.** For every
    message of these kinds whose 16-bit speed / altitude sources hold 16-bit values (what the
    decoder stores, or the constructor's invalid value), `expand` — the statement-by-statement model
    of the generated `expandComponents` — equals the generic interpretation `expandSpec` of the
    profile's component rules (source, destination, bit width), whatever deviations are switched on
    (they only concern record). -/
theorem expand_eq_rules_lap_session_segment (q : XSpec.Quirks) (P : Profile) (m : Msg) (g : Globals) (pm : PMsg)
    (hpm : P.msg? m.num = some pm)
    (hnum : m.num = mnSession ∨ m.num = mnLap ∨ m.num = mnSegmentLap)
    (h1 : ∀ si, pm.idx "AvgSpeed" = some si → Src16 m si)
    (h2 : ∀ si, pm.idx "MaxSpeed" = some si → Src16 m si)
    (h3 : ∀ si, pm.idx "AvgAltitude" = some si → Src16 m si)
    (h4 : ∀ si, pm.idx "MaxAltitude" = some si → Src16 m si)
    (h5 : ∀ si, pm.idx "MinAltitude" = some si → Src16 m si) :
    expand P m g = XSpec.expandSpec q P m g := by
  unfold expand XSpec.expandSpec XSpec.rulesFor
  rw [hpm]
  simp only
  rcases hnum with h | h | h
  · have e1 : ¬ m.num = mnRecord := by rw [h]; decide
    simp only [e1, ↓reduceIte, h, true_or]
    exact (speedAlt5_eq q pm m g h1 h2 h3 h4 h5).symm
  · have e1 : ¬ m.num = mnRecord := by rw [h]; decide
    simp only [e1, ↓reduceIte, h, or_true]
    exact (speedAlt5_eq q pm m g h1 h2 h3 h4 h5).symm
  · have e1 : ¬ m.num = mnRecord := by rw [h]; decide
    have e2 : ¬ (m.num = mnSession ∨ m.num = mnLap) := by rw [h]; decide
    simp only [e1, e2, ↓reduceIte, h]
    exact (segmentLap_eq q pm m g h3 h4 h5).symm

/-- the hypothesis is what the decoder produces: a lap with avg_speed 1000 and the other sources
    invalid satisfies it, and both sides put 1000 into enhanced_avg_speed (kernel-evaluated on the
    regenerated profile) -/
example :
    (match Gen.profile.msg? mnLap with
     | some pm =>
       let m : Msg := ⟨mnLap, (pm.invalid.zipIdx.map fun (v, i) => if pm.idx "AvgSpeed" = some i then Val.u 1000 else v)⟩
       (expand Gen.profile m {}).1 == (XSpec.expandSpec {} Gen.profile m {}).1 &&
       (match pm.idx "EnhancedAvgSpeed" with
        | some di => (expand Gen.profile m {}).1.vals[di]? == some (Val.u 1000)
        | none => false)
     | none => false) = true := by decide +kernel

/-! ### all five message kinds: the code's expansion is the profile's rules with the recorded deviations -/

/-- Boolean form of the typing hypotheses: a scalar slot (if the field exists and is set) holds an
    unsigned value below `2^bits` -/
def srcUB (bits : Nat) (m : Msg) (i : Option Nat) : Bool :=
  match i with
  | none => true
  | some i =>
    match m.vals[i]? with
    | none => true
    | some (.u n) => decide (n < 2 ^ bits)
    | _ => false

def srcBytesB (m : Msg) (i : Option Nat) : Bool :=
  match i with
  | none => true
  | some i =>
    match m.vals[i]? with
    | none => true
    | some (.us none) => true
    | some (.us (some bs)) => bs.all (fun b => decide (b < 256))
    | _ => false

theorem srcUB_sound (bits : Nat) (m : Msg) (oi : Option Nat) (h : srcUB bits m oi = true) :
    ∀ i, oi = some i → SrcU bits m i := by
  intro i hi v hv
  subst hi
  simp only [srcUB, hv] at h
  cases v with
  | u n => exact ⟨n, rfl, by simpa using h⟩
  | _ => simp at h

theorem src16B_sound (m : Msg) (oi : Option Nat) (h : srcUB 16 m oi = true) : ∀ i, oi = some i → Src16 m i := by
  intro i hi v hv
  obtain ⟨n, e, hn⟩ := srcUB_sound 16 m oi h i hi v hv
  exact ⟨n, e, hn⟩

theorem srcBytesB_sound (m : Msg) (oi : Option Nat) (h : srcBytesB m oi = true) : ∀ i, oi = some i → SrcBytes m i := by
  intro i hi v hv
  subst hi
  simp only [srcBytesB, hv] at h
  cases v with
  | us o =>
    refine ⟨o, rfl, ?_⟩
    intro bs hbs b hb
    subst hbs
    simp only [List.all_eq_true, decide_eq_true_eq] at h
    exact h b hb
  | _ => simp at h

def recordTypedB (pm : PMsg) (m : Msg) : Bool :=
  srcUB 16 m (pm.idx "Altitude") && srcUB 16 m (pm.idx "Speed") &&
  ((pm.idx "Speed").isSome && (pm.idx "Distance").isSome && (pm.idx "CompressedSpeedDistance").isSome &&
    (pm.idx "Cycles").isSome && (pm.idx "TotalCycles").isSome && (pm.idx "CompressedAccumulatedPower").isSome &&
    (pm.idx "AccumulatedPower").isSome) &&
  srcBytesB m (pm.idx "CompressedSpeedDistance") && srcUB 8 m (pm.idx "Cycles") &&
  srcUB 16 m (pm.idx "CompressedAccumulatedPower")

theorem recordTypedB_sound (pm : PMsg) (m : Msg) (h : recordTypedB pm m = true) : RecordTyped pm m := by
  unfold recordTypedB at h
  simp only [Bool.and_eq_true] at h
  obtain ⟨⟨⟨⟨⟨h1, h2⟩, ⟨⟨⟨⟨⟨⟨n1, n2⟩, n3⟩, n4⟩, n5⟩, n6⟩, n7⟩⟩, h3⟩, h4⟩, h5⟩ := h
  exact ⟨src16B_sound m _ h1, src16B_sound m _ h2, ⟨n1, n2, n3, n4, n5, n6, n7⟩, srcBytesB_sound m _ h3,
    srcUB_sound 8 m _ h4, srcUB_sound 16 m _ h5⟩

def eventTypedB (pm : PMsg) (m : Msg) : Bool :=
  srcUB 16 m (pm.idx "Data16") && srcUB 32 m (pm.idx "Data") &&
  ((pm.idx "Data").isSome && (pm.idx "Event").isSome && (pm.idx "Score").isSome && (pm.idx "OpponentScore").isSome &&
    (pm.idx "RearGearNum").isSome && (pm.idx "RearGear").isSome && (pm.idx "FrontGearNum").isSome &&
    (pm.idx "FrontGear").isSome)

theorem eventTypedB_sound (pm : PMsg) (m : Msg) (h : eventTypedB pm m = true) : EventTyped pm m := by
  unfold eventTypedB at h
  simp only [Bool.and_eq_true] at h
  obtain ⟨⟨h1, h2⟩, ⟨⟨⟨⟨⟨⟨⟨n1, n2⟩, n3⟩, n4⟩, n5⟩, n6⟩, n7⟩, n8⟩⟩ := h
  exact ⟨src16B_sound m _ h1, srcUB_sound 32 m _ h2, ⟨n1, n2, n3, n4, n5, n6, n7, n8⟩⟩

/-- the typing check for whichever of the five kinds the message is (true for any other message) -/
def typedB (P : Profile) (m : Msg) : Bool :=
  match P.msg? m.num with
  | none => true
  | some pm =>
    if m.num = mnRecord then recordTypedB pm m
    else if m.num = mnEvent then eventTypedB pm m
    else if m.num = mnSession ∨ m.num = mnLap ∨ m.num = mnSegmentLap then
      srcUB 16 m (pm.idx "AvgSpeed") && srcUB 16 m (pm.idx "MaxSpeed") && srcUB 16 m (pm.idx "AvgAltitude") &&
        srcUB 16 m (pm.idx "MaxAltitude") && srcUB 16 m (pm.idx "MinAltitude")
    else true

/-- **`expandComponents` is the profile's component rules with exactly the recorded deviations.**
    For every message whose component sources hold the kinds of value the decoder stores (`typedB`),
    of any type: the statement-by-statement model `expand` of the generated code equals the generic,
    rule-driven specification `expandSpec` with D10 (distance loses its top nibble) and D11
    (total_cycles / accumulated_power accumulators with mask 0) switched on — message and
    accumulators alike. Nothing else separates the code from the profile's rules. -/
theorem expand_eq_spec (P : Profile) (m : Msg) (g : Globals) (h : typedB P m = true) :
    expand P m g = XSpec.expandSpec codeQuirks P m g := by
  unfold typedB at h
  cases hpm : P.msg? m.num with
  | none => simp [expand, XSpec.expandSpec, hpm]
  | some pm =>
    rw [hpm] at h
    simp only at h
    by_cases hr : m.num = mnRecord
    · simp only [hr, ↓reduceIte] at h
      unfold expand XSpec.expandSpec
      rw [hpm]
      simp only [hr, ↓reduceIte]
      exact (record_eq pm m g (recordTypedB_sound pm m h)).symm
    · simp only [hr, ↓reduceIte] at h
      by_cases he : m.num = mnEvent
      · simp only [he, ↓reduceIte] at h
        have e2 : ¬ (m.num = mnSession ∨ m.num = mnLap) := by rw [he]; decide
        have e3 : ¬ m.num = mnSegmentLap := by rw [he]; decide
        unfold expand XSpec.expandSpec
        rw [hpm]
        simp only [hr, e2, e3, ↓reduceIte, he]
        have := event_eq codeQuirks pm m g (eventTypedB_sound pm m h)
        rw [this]
        have d1 : ¬ mnEvent = mnRecord := by decide
        have d2 : ¬ (mnEvent = mnSession ∨ mnEvent = mnLap) := by decide
        have d3 : ¬ mnEvent = mnSegmentLap := by decide
        simp only [d1, d2, d3, ↓reduceIte]
      · simp only [he, ↓reduceIte] at h
        by_cases hs : m.num = mnSession ∨ m.num = mnLap ∨ m.num = mnSegmentLap
        · simp only [hs, ↓reduceIte, Bool.and_eq_true] at h
          obtain ⟨⟨⟨⟨h1, h2⟩, h3⟩, h4⟩, h5⟩ := h
          exact expand_eq_rules_lap_session_segment codeQuirks P m g pm hpm hs (src16B_sound m _ h1) (src16B_sound m _ h2)
            (src16B_sound m _ h3) (src16B_sound m _ h4) (src16B_sound m _ h5)
        · have e1 : ¬ (m.num = mnSession ∨ m.num = mnLap) := fun x => hs (x.elim Or.inl (fun y => Or.inr (Or.inl y)))
          have e2 : ¬ m.num = mnSegmentLap := fun x => hs (Or.inr (Or.inr x))
          unfold expand XSpec.expandSpec XSpec.rulesFor
          rw [hpm]
          simp only [hr, he, e1, e2, ↓reduceIte, XSpec.applyRules]

set_option maxRecDepth 100000 in
/-- non-vacuity on the regenerated profile: a record with compressed_speed_distance [0x12, 0x34, 0xAB]
    (the D10 pattern), cycles 7 and compressed_accumulated_power 300 passes the typing check, and the
    two sides agree on it — the distance they both produce is the truncated 0xB3, not 0xAB3 -/
example :
    (match Gen.profile.msg? mnRecord with
     | some pm =>
       let m : Msg := ⟨mnRecord, (pm.invalid.zipIdx.map fun (v, i) =>
         if pm.idx "CompressedSpeedDistance" = some i then Val.us (some [0x12, 0x34, 0xAB])
         else if pm.idx "Cycles" = some i then Val.u 7
         else if pm.idx "CompressedAccumulatedPower" = some i then Val.u 300 else v)⟩
       typedB Gen.profile m &&
       ((expand Gen.profile m {}).1 == (XSpec.expandSpec codeQuirks Gen.profile m {}).1) &&
       (match pm.idx "Distance" with
        | some di => (expand Gen.profile m {}).1.vals[di]? == some (Val.u 0xB3)
        | none => false)
     | none => false) = true := by decide +kernel

/-! ### the accumulated distance of a file's records (FitProofs/RunningSum.lean) -/

/-- the record message of the regenerated profile has the three fields the distance run needs -/
theorem gen_record_names : ∃ pm ci si di, Gen.profile.msg? mnRecord = some pm ∧ DistNames pm ci si di ∧
    di < pm.invalid.length := by
  cases h : Gen.profile.msg? mnRecord with
  | none => exact absurd h (by decide +kernel)
  | some pm =>
    have hk : (match Gen.profile.msg? mnRecord with
        | some pm => (pm.idx "CompressedSpeedDistance").isSome && (pm.idx "Speed").isSome &&
            (match pm.idx "Distance" with | some di => decide (di < pm.invalid.length) | none => false)
        | none => false) = true := by decide +kernel
    rw [h] at hk
    simp only [Bool.and_eq_true] at hk
    obtain ⟨⟨h1, h2⟩, h3⟩ := hk
    obtain ⟨ci, hci⟩ := Option.isSome_iff_exists.mp h1
    obtain ⟨si, hsi⟩ := Option.isSome_iff_exists.mp h2
    cases hd : pm.idx "Distance" with
    | none => rw [hd] at h3; cases h3
    | some di =>
      rw [hd] at h3
      exact ⟨pm, ci, si, di, rfl, ⟨hci, hsi, hd⟩, by simpa using h3⟩

/-- **Accumulated distance = running sum of rollover-corrected deltas.** The records of a file,
    each carrying compressed_speed_distance with raw distance values `ds` (as the generated code
    extracts them: finding D10 loses the top nibble), stored one after another while the
    package-level accumulator is `g.dist`: the distance fields of the stored records are the running
    sums, modulo 2^32, of the 12-bit rollover-corrected deltas of `ds`, on top of the value of the
    accumulator in force (`effDist g`). If no earlier file left an accumulator behind, that is 0 with
    last raw value 0 — the sum "since the start of the same file"; otherwise the run continues the
    earlier file's (finding D12, `accumulator_lifetime_counterexample`). -/
theorem record_distance_running_sum (pm : PMsg) (hpm : Gen.profile.msg? mnRecord = some pm) (ci si di : Nat)
    (hn : DistNames pm ci si di) (ms : List Msg) (hms : ∀ m ∈ ms, m.num = mnRecord ∧ di < m.vals.length)
    (ds : List Nat) (hraw : ms.map (csdRaw pm) = ds.map some) (g : Globals)
    (hmask : g.dist.present = true → g.dist.mask = 2 ^ 12 - 1) :
    (expandList Gen.profile g ms).1.map (fun m => m.vals[di]?) =
      ((prefixSums (effDist g).value (deltas 12 (effDist g).last ds)).map (· % 2 ^ 32)).map fun v => some (Val.u v) :=
  Fit.record_distance_running_sum Gen.profile pm hpm ci si di hn ms hms ds hraw g hmask

/-- from a fresh process: the sums start at 0 and the first delta is the first raw value -/
theorem record_distance_from_zero (pm : PMsg) (hpm : Gen.profile.msg? mnRecord = some pm) (ci si di : Nat)
    (hn : DistNames pm ci si di) (ms : List Msg) (hms : ∀ m ∈ ms, m.num = mnRecord ∧ di < m.vals.length)
    (ds : List Nat) (hraw : ms.map (csdRaw pm) = ds.map some) :
    (expandList Gen.profile {} ms).1.map (fun m => m.vals[di]?) =
      ((prefixSums 0 (deltas 12 0 ds)).map (· % 2 ^ 32)).map fun v => some (Val.u v) :=
  record_distance_running_sum pm hpm ci si di hn ms hms ds hraw {} (fun h => by cases h)

/-- the records of a file in general (some without compressed_speed_distance): `DistRun` -/
theorem record_distance_run (pm : PMsg) (hpm : Gen.profile.msg? mnRecord = some pm) (ci si di : Nat)
    (hn : DistNames pm ci si di) (ms : List Msg) (hms : ∀ m ∈ ms, m.num = mnRecord ∧ di < m.vals.length) (g : Globals) :
    DistRun pm di (effDist g) ms (expandList Gen.profile g ms).1 :=
  expandList_dist Gen.profile pm hpm ci si di hn ms hms g

/-- D11 at the level of a file: an accumulator with mask 0 — what the generated code creates for
    total_cycles and accumulated_power — reports its starting value (0 in a fresh process) for every
    raw value, so those two destinations never move (known finding; the distance accumulator, created
    with 12 bits, is the one the running-sum theorem is about) -/
theorem mask_zero_run_constant (ds : List Nat) : accValues Accu.zero ds = ds.map fun _ => 0 :=
  accValues_mask_zero Accu.zero rfl (by decide) ds

set_option maxRecDepth 100000 in
/-- non-vacuity, evaluated: three records with raw distances 0x0F0 → 0x0F8 → 0x003 (the low byte
    the generated code keeps: 0xF0, 0xF8, 0x03) from a fresh process give 0xF0, 0xF8 and, across the
    12-bit rollover, 0xF8 + 0xF0B = 0x1003 -/
example :
    (match Gen.profile.msg? mnRecord with
     | some pm =>
       let mk (b1 b2 : Nat) : Msg := ⟨mnRecord, (pm.invalid.zipIdx.map fun (v, i) =>
         if pm.idx "CompressedSpeedDistance" = some i then Val.us (some [0x00, b1, b2]) else v)⟩
       let ms := [mk 0x00 0x0F, mk 0x80 0x0F, mk 0x30 0x00]
       (ms.map (csdRaw pm) == [some 0xF0, some 0xF8, some 0x03]) &&
       (match pm.idx "Distance" with
        | some di => (expandList Gen.profile {} ms).1.map (fun m => m.vals[di]?) ==
            [some (Val.u 0xF0), some (Val.u 0xF8), some (Val.u 0x1003)] &&
            ((prefixSums 0 (deltas 12 0 [0xF0, 0xF8, 0x03])).map (· % 2 ^ 32) == [0xF0, 0xF8, 0x1003])
        | none => false)
     | none => false) = true := by decide +kernel

end Fit.Props.C18
