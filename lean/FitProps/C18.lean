import FitModel.Items
import FitModel.Gen.Profile
import FitProofs.ExpandEq
/-!
  C18 — component fields expand per profile, with per-file accumulation.

  `expand` (FitModel/File.lean) follows the generated `expandComponents` methods statement by
  statement, including three deviations from the profile's component rules that are recorded as
  known findings (D10, D11, D12 in DESIGN.md): the theorems `…_counterexample` exhibit them,
  `…_partial` theorems state what holds.
-/
namespace Fit.Props.C18
open Fit

/-- An invalid source leaves the message untouched. -/
theorem invalid_source_untouched (pm : PMsg) (m : Msg) (src dst : String) (inv si : Nat)
    (hs : pm.idx src = some si) (hv : m.getU si = some inv) :
    copyIfValid pm m src dst inv = m := by
  unfold copyIfValid
  rw [hs]
  cases pm.idx dst with
  | none => rfl
  | some di => simp [hv]

/-- A valid source is copied, zero-extended, into its destination and nothing else changes. -/
theorem valid_source_copied (pm : PMsg) (m : Msg) (src dst : String) (inv si di v : Nat)
    (hs : pm.idx src = some si) (hd : pm.idx dst = some di) (hv : m.getU si = some v) (hne : v ≠ inv) :
    copyIfValid pm m src dst inv = m.setU di v := by
  unfold copyIfValid
  simp [hs, hd, hv, hne]

/-- the two 12-bit halves of compressed_speed_distance as the profile defines them -/
def csdSpeed (b0 b1 : Nat) : Nat := (b0 + 256 * b1) % 4096
def csdDistance (b1 b2 : Nat) : Nat := (b1 / 16 + 16 * b2) % 4096

/-- speed = low 12 bits of the 24-bit little-endian value (bytes < 256) -/
theorem csd_speed_slice (b0 b1 : Nat) (h0 : b0 < 256) (h1 : b1 < 256) :
    (b0 ||| ((b1 &&& 0x0F) <<< 8)) = csdSpeed b0 b1 := by
  unfold csdSpeed
  have : ∀ x : Fin 256, ∀ y : Fin 256, (x.val ||| ((y.val &&& 0x0F) <<< 8)) = (x.val + 256 * y.val) % 4096 := by
    decide +kernel
  exact this ⟨b0, h0⟩ ⟨b1, h1⟩

/-- D10 (known finding): the distance half loses its top four bits, because `byte << 4` is
    evaluated in uint8 before the conversion to uint32 … -/
theorem csd_distance_counterexample :
    ((0x12 >>> 4) ||| ((0xAB <<< 4) % 256)) = 0xB1 ∧ csdDistance 0x12 0xAB = 0xAB1 := by decide

/-- … so the expanded distance is right exactly when the high nibble of byte 2 is clear. -/
theorem csd_distance_partial (b1 b2 : Nat) (h1 : b1 < 256) (h2 : b2 < 16) :
    ((b1 >>> 4) ||| ((b2 <<< 4) % 256)) = csdDistance b1 b2 := by
  unfold csdDistance
  have : ∀ x : Fin 256, ∀ y : Fin 16, ((x.val >>> 4) ||| ((y.val <<< 4) % 256)) = (x.val / 16 + 16 * y.val) % 4096 := by
    decide +kernel
  exact this ⟨b1, h1⟩ ⟨b2, h2⟩

/-- A correctly constructed accumulator adds the rollover-corrected delta modulo 2^bits. -/
theorem accumulate_spec (bits : Nat) (a : Accu) (v : Nat) (hm : a.mask = 2 ^ bits - 1) (hb : bits ≤ 32)
    (hv : v < 2 ^ 32) (hl : a.last < 2 ^ 32) :
    (a.accumulate v).2 = (a.value + (v + 2 ^ 32 - a.last) % 2 ^ bits) % 2 ^ 32 ∧
    (a.accumulate v).1.last = v := by
  unfold Accu.accumulate
  simp only [hm, Nat.and_two_pow_sub_one_eq_mod]
  constructor
  · congr 2
    exact (Nat.mod_mod_of_dvd _ (Nat.pow_dvd_pow 2 hb))
  · trivial

/-- D11 (known finding): total_cycles and accumulated_power use `new(uint32Accumulator)`, whose
    mask is 0, so the accumulated value never moves. -/
theorem accumulator_mask_counterexample (v : Nat) :
    (Accu.zero.accumulate v).2 = 0 := by
  simp [Accu.accumulate, Accu.zero]

/-- D12 (known finding): the accumulators are package-level; a second file starts from the first
    file's state instead of zero. -/
theorem accumulator_lifetime_counterexample :
    let a1 := ((Accu.new 12).accumulate 100).1      -- state left behind by file 1
    (a1.accumulate 50).2 ≠ ((Accu.new 12).accumulate 50).2 := by decide

/-- the event kinds with component rules, as in the profile -/
theorem event_constants : evSportPoint = Gen.evSportPoint ∧ evFrontGearChange = Gen.evFrontGearChange ∧
    evRearGearChange = Gen.evRearGearChange := by decide

/-- gear data: four bytes of `data`, least-significant first -/
theorem gear_bytes (pm : PMsg) (m : Msg) (d a b c e : Nat) (hd : d ≠ 0xFFFFFFFF)
    (h1 : pm.idx "RearGearNum" = some a) (h2 : pm.idx "RearGear" = some b)
    (h3 : pm.idx "FrontGearNum" = some c) (h4 : pm.idx "FrontGear" = some e) :
    expandEventData pm m d evRearGearChange =
      (((m.setU a (d % 256)).setU b ((d / 256) % 256)).setU c ((d / 65536) % 256)).setU e ((d / 16777216) % 256) := by
  unfold expandEventData
  simp [hd, h1, h2, h3, h4, evRearGearChange, evSportPoint]

/-- score data: two 16-bit halves of `data` -/
theorem score_halves (pm : PMsg) (m : Msg) (d s o : Nat) (hd : d ≠ 0xFFFFFFFF)
    (h1 : pm.idx "Score" = some s) (h2 : pm.idx "OpponentScore" = some o) :
    expandEventData pm m d evSportPoint = (m.setU s (d % 65536)).setU o ((d / 65536) % 65536) := by
  unfold expandEventData
  simp [hd, h1, h2]

/-- an invalid `data` value expands nothing -/
theorem event_invalid_untouched (pm : PMsg) (m : Msg) (ev : Nat) :
    expandEventData pm m 0xFFFFFFFF ev = m := by
  simp [expandEventData]

/-- every component field the model refers to exists in the regenerated message structs -/
theorem gen_component_fields_exist :
    (["Altitude", "EnhancedAltitude", "Speed", "EnhancedSpeed", "CompressedSpeedDistance", "Distance",
      "Cycles", "TotalCycles", "CompressedAccumulatedPower", "AccumulatedPower"].all
        fun n => (Gen.m20.idx n).isSome) = true ∧
    (["AvgSpeed", "EnhancedAvgSpeed", "MaxSpeed", "EnhancedMaxSpeed", "AvgAltitude", "EnhancedAvgAltitude",
      "MaxAltitude", "EnhancedMaxAltitude", "MinAltitude", "EnhancedMinAltitude"].all
        fun n => (Gen.m18.idx n).isSome && (Gen.m19.idx n).isSome) = true ∧
    (["AvgAltitude", "EnhancedAvgAltitude", "MaxAltitude", "EnhancedMaxAltitude", "MinAltitude",
      "EnhancedMinAltitude"].all fun n => (Gen.m142.idx n).isSome) = true ∧
    (["Event", "Data16", "Data", "Score", "OpponentScore", "RearGearNum", "RearGear", "FrontGearNum",
      "FrontGear"].all fun n => (Gen.m21.idx n).isSome) = true := by decide +kernel

/-- every container slot that holds a component-bearing message stores it expanded: routing
    calls `expand` for exactly the five message kinds, in whatever container holds them
    (this is `containerAdd`; the correspondence run checks all containers of the real code). -/
theorem containers_expand (P : Profile) (c : Container) (sl : List (List Msg)) (m : Msg) (g : Globals) (i : Nat)
    (hs : slotFor c m.num = some i) (he : m.num ∈ expandSet) :
    (containerAdd P c sl m g).2 = (expand P m g).2 := by
  simp [containerAdd, hs, he]

/-- **lap, session and segment_lap: the transcribed expansion is the profile's rules.** For every
    message of these kinds whose 16-bit speed / altitude sources hold 16-bit values (what the
    decoder stores, or the constructor's invalid value), `expand` — the statement-by-statement model
    of the generated `expandComponents` — equals the generic interpretation `expandSpec` of the
    profile's component rules (source, destination, bit width), whatever deviations are switched on
    (they only concern record). -/
theorem expand_eq_rules_lap_session_segment (q : XSpec.Quirks) (P : Profile) (m : Msg) (g : Globals) (pm : PMsg)
    (hpm : P.msg? m.num = some pm)
    (hnum : m.num = mnSession ∨ m.num = mnLap ∨ m.num = mnSegmentLap)
    (h1 : ∀ si, pm.idx "AvgSpeed" = some si → Src16 m si)
    (h2 : ∀ si, pm.idx "MaxSpeed" = some si → Src16 m si)
    (h3 : ∀ si, pm.idx "AvgAltitude" = some si → Src16 m si)
    (h4 : ∀ si, pm.idx "MaxAltitude" = some si → Src16 m si)
    (h5 : ∀ si, pm.idx "MinAltitude" = some si → Src16 m si) :
    expand P m g = XSpec.expandSpec q P m g := by
  unfold expand XSpec.expandSpec XSpec.rulesFor
  rw [hpm]
  simp only
  rcases hnum with h | h | h
  · have e1 : ¬ m.num = mnRecord := by rw [h]; decide
    simp only [e1, ↓reduceIte, h, true_or]
    exact (speedAlt5_eq q pm m g h1 h2 h3 h4 h5).symm
  · have e1 : ¬ m.num = mnRecord := by rw [h]; decide
    simp only [e1, ↓reduceIte, h, or_true]
    exact (speedAlt5_eq q pm m g h1 h2 h3 h4 h5).symm
  · have e1 : ¬ m.num = mnRecord := by rw [h]; decide
    have e2 : ¬ (m.num = mnSession ∨ m.num = mnLap) := by rw [h]; decide
    simp only [e1, e2, ↓reduceIte, h]
    exact (segmentLap_eq q pm m g h3 h4 h5).symm

/-- the hypothesis is what the decoder produces: a lap with avg_speed 1000 and the other sources
    invalid satisfies it, and both sides put 1000 into enhanced_avg_speed (kernel-evaluated on the
    regenerated profile) -/
example :
    (match Gen.profile.msg? mnLap with
     | some pm =>
       let m : Msg := ⟨mnLap, (pm.invalid.zipIdx.map fun (v, i) => if pm.idx "AvgSpeed" = some i then Val.u 1000 else v)⟩
       (expand Gen.profile m {}).1 == (XSpec.expandSpec {} Gen.profile m {}).1 &&
       (match pm.idx "EnhancedAvgSpeed" with
        | some di => (expand Gen.profile m {}).1.vals[di]? == some (Val.u 1000)
        | none => false)
     | none => false) = true := by decide +kernel

end Fit.Props.C18
