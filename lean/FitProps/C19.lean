import FitModel.GenCore
/-!
  C19 — fitgen yields valid, deterministic code for every product-profile selection.

  Partial: only the table-content clause is a theorem (about the model `GenCore.gen` of the row
  filter → struct index → lookup entry pipeline).  Exit status, compilability and run-to-run
  determinism are observations of the harness on the real command (the model is a pure function
  and cannot exhibit map-order nondeterminism; "compiles" is a fact about the Go type checker).
-/
namespace Fit.Props.C19
open Fit.GenCore

theorem genFrom_msgs (seen rows : List Row) (e : Entry) (h : e ∈ genFrom seen rows) :
    ∃ r ∈ rows, r.enabled = true ∧ e.msg = r.msg ∧ e.num = r.num ∧ e.tcode = r.tcode := by
  induction rows generalizing seen with
  | nil => simp [genFrom] at h
  | cons r rest ih =>
    simp only [genFrom] at h
    split at h
    · rename_i hen
      simp only [List.mem_cons] at h
      rcases h with h | h
      · exact ⟨r, by simp, hen, by rw [h], by rw [h], by rw [h]⟩
      · obtain ⟨r', hr', hx⟩ := ih _ h
        exact ⟨r', by simp [hr'], hx⟩
    · obtain ⟨r', hr', hx⟩ := ih _ h
      exact ⟨r', by simp [hr'], hx⟩

/-- nothing is generated for disabled rows: every entry comes from an enabled row -/
theorem gen_disabled_absent (rows : List Row) (e : Entry) (h : e ∈ gen rows) :
    ∃ r ∈ rows, r.enabled = true ∧ e.msg = r.msg ∧ e.num = r.num ∧ e.tcode = r.tcode :=
  genFrom_msgs [] rows e h

/-- the number of entries is the number of enabled rows: exactly one entry per enabled row -/
theorem genFrom_length (seen rows : List Row) :
    (genFrom seen rows).length = (rows.filter (·.enabled)).length := by
  induction rows generalizing seen with
  | nil => rfl
  | cons r rest ih =>
    simp only [genFrom, List.filter_cons]
    split
    · simp [ih]
    · exact ih _

theorem gen_one_per_enabled_row (rows : List Row) :
    (gen rows).length = (rows.filter (·.enabled)).length := genFrom_length [] rows

/-- every enabled row has its entry, carrying the row's field number and type code, with struct
    index = number of enabled rows of the same message before it -/
theorem genFrom_has_entry (seen pre : List Row) (r : Row) (post : List Row) (hen : r.enabled = true) :
    ⟨r.msg, countMsg r.msg (seen ++ pre), r.num, r.tcode⟩ ∈ genFrom seen (pre ++ r :: post) := by
  induction pre generalizing seen with
  | nil => simp [genFrom, hen]
  | cons p ps ih =>
    simp only [List.cons_append, genFrom]
    have := ih (seen ++ [p])
    rw [List.append_assoc] at this
    split
    · exact List.mem_cons_of_mem _ this
    · exact this

theorem gen_entries_exact (pre : List Row) (r : Row) (post : List Row) (hen : r.enabled = true) :
    ⟨r.msg, countMsg r.msg pre, r.num, r.tcode⟩ ∈ gen (pre ++ r :: post) := by
  have := genFrom_has_entry [] pre r post hen
  simpa [gen] using this

/-- struct indices of one message are dense and in row order: 0, 1, 2, … -/
theorem genFrom_sindex_dense (m : String) (seen rows : List Row) :
    ((genFrom seen rows).filter (fun e => e.msg == m)).map (·.sindex) =
      (List.range (countMsg m rows)).map (fun k => countMsg m seen + k) := by
  induction rows generalizing seen with
  | nil => simp [genFrom, countMsg]
  | cons r rest ih =>
    simp only [genFrom]
    have hcm : ∀ s : List Row, countMsg m (s ++ [r]) = countMsg m s + (if r.enabled && r.msg == m then 1 else 0) := by
      intro s; simp only [countMsg, List.filter_append, List.length_append, List.filter_cons, List.filter_nil]
      split <;> simp
    have hc : countMsg m (r :: rest) = (if r.enabled && r.msg == m then 1 else 0) + countMsg m rest := by
      simp only [countMsg, List.filter_cons]
      split <;> simp <;> omega
    by_cases hen : r.enabled = true
    · simp only [hen, ↓reduceIte, List.filter_cons]
      by_cases hm : (r.msg == m) = true
      · simp only [hm, ↓reduceIte, List.map_cons]
        rw [ih, hcm, hc]
        simp only [hen, hm, Bool.and_self, ↓reduceIte]
        rw [Nat.add_comm 1, List.range_succ_eq_map, List.map_cons, List.map_map]
        have e1 : countMsg r.msg seen = countMsg m seen := by
          have : r.msg = m := by simpa using hm
          rw [this]
        simp only [e1, Nat.add_zero, List.cons.injEq, true_and]
        apply List.map_congr_left
        intro k _
        simp; omega
      · have hm' : (r.msg == m) = false := by simpa using hm
        simp only [hm', Bool.false_eq_true, ↓reduceIte]
        rw [ih, hcm, hc]
        simp [hen, hm']
    · have hen' : r.enabled = false := by simpa using hen
      simp only [hen', Bool.false_eq_true, ↓reduceIte]
      rw [ih, hcm, hc]
      simp [hen']

theorem gen_sindex_dense (m : String) (rows : List Row) :
    ((gen rows).filter (fun e => e.msg == m)).map (·.sindex) = List.range (countMsg m rows) := by
  have := genFrom_sindex_dense m [] rows
  simpa [gen, countMsg] using this

example : gen [⟨"record", 253, true, 70⟩, ⟨"record", 0, false, 67⟩, ⟨"record", 1, true, 68⟩, ⟨"lap", 254, true, 4⟩] =
    [⟨"record", 0, 253, 70⟩, ⟨"record", 1, 1, 68⟩, ⟨"lap", 0, 254, 4⟩] := by decide

end Fit.Props.C19
