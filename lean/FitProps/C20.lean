import FitModel.Strings
import FitModel.Gen.StrOK
/-!
  C20 — every profile constant prints its profile name; string tables match the types.

  `Gen.Str.tables` is regenerated on every run from the checked-in sources: the constants of every
  generated type (types.go, types_man.go) and the *shape* of every generated `String` method with
  its name constants, index arrays, case bounds, offsets and map entries as written
  (types_string.go, types_man.go).  `strOf` evaluates a shape the way the Go code does.
-/
namespace Fit.Props.C20
open Fit.Str

/-- every checked-in string table is right on every value it covers, covers every constant,
    and covers nothing but constants (kernel evaluation, chunk by chunk, in FitModel/Gen/StrOK*.lean) -/
theorem gen_strings_wf : Fit.Gen.Str.tables.all tableOK = true := Fit.Gen.Str.tables_ok

theorem mem_intRange (lo hi i : Int) : i ∈ intRange lo hi ↔ lo ≤ i ∧ i ≤ hi := by
  unfold intRange
  simp only [List.mem_map, List.mem_range]
  constructor
  · rintro ⟨k, hk, rfl⟩
    have : (Int.ofNat k) = (k : Int) := rfl
    omega
  · intro ⟨h1, h2⟩
    refine ⟨(i - lo).toNat, ?_, ?_⟩
    · omega
    · have : Int.ofNat (i - lo).toNat = i - lo := Int.toNat_of_nonneg (by omega)
      omega

/-- a value (of an unsigned type) outside everything the method's cases cover takes the default
    branch: it prints as `Type(n)` -/
theorem uncovered_default (T : Table) (i : Int) (hi : 0 ≤ i ∧ i < (2 ^ T.bits : Nat))
    (hf : shapeFits T = true) (h : i ∉ covered T) : strOf T i = dflt T i := by
  unfold strOf
  unfold covered at h
  unfold shapeFits at hf
  cases hsh : T.shape with
  | runs rs =>
    rw [hsh] at h
    simp only
    have : rs.find? (fun r => decide (r.lo ≤ i ∧ i ≤ r.hi)) = none := by
      rw [List.find?_eq_none]
      intro r hr hc
      apply h
      rw [List.mem_flatMap]
      exact ⟨r, hr, (mem_intRange _ _ _).2 (by simpa using hc)⟩
    rw [this]
  | single off name index =>
    rw [hsh] at h hf
    simp only [Bool.and_eq_true, decide_eq_true_eq, Bool.not_eq_eq_eq_not, Bool.not_true] at hf
    obtain ⟨⟨hoff, hfit⟩, hs⟩ := hf
    simp only [hs, Bool.false_eq_true, ↓reduceIte]
    rw [mem_intRange] at h
    generalize hP : ((2 ^ T.bits : Nat) : Int) = P at *
    have hp : 0 < P := by omega
    by_cases hlen : index.length = 0
    · -- degenerate empty index array: every value takes the default branch
      have hnn : 0 ≤ (i - off) % P := Int.emod_nonneg _ (by omega)
      split
      · rfl
      · rename_i hc; exfalso; omega
    by_cases hlt : i < off
    · -- unsigned wrap-around: the difference becomes i - off + 2^bits, beyond the index array
      have hmod : (i - off) % P = i - off + P := by
        rw [Int.emod_eq_add_self_emod, Int.emod_eq_of_lt] <;> omega
      rw [hmod]
      split
      · rfl
      · rename_i hc; exfalso; omega
    · have hmod : (i - off) % P = i - off := by
        apply Int.emod_eq_of_lt <;> omega
      rw [hmod]
      split
      · rfl
      · rename_i hc; exfalso; apply h; omega
  | map es =>
    rw [hsh] at h
    simp only
    have : es.find? (fun e => e.1 == i) = none := by
      rw [List.find?_eq_none]
      intro e he hc
      apply h
      rw [List.mem_map]
      exact ⟨e, he, by simpa using hc⟩
    rw [this]

/-- **String is correct on every value of the type's range**: a value that is a constant prints
    one of its names without the type prefix, every other value prints as `Type(n)`. -/
theorem string_correct (T : Table) (h : tableOK T = true) (i : Int) (hi : 0 ≤ i ∧ i < (2 ^ T.bits : Nat)) :
    specOK T i (strOf T i) = true := by
  simp only [tableOK, Bool.and_eq_true, List.all_eq_true] at h
  obtain ⟨⟨⟨hf, h1⟩, h2⟩, _⟩ := h
  by_cases hc : i ∈ covered T
  · exact h1 i hc
  · rw [uncovered_default T i hi hf hc]
    unfold specOK
    have hn : T.consts.any (fun c => c.2 == i) = false := by
      rw [Bool.eq_false_iff]
      intro ha
      rw [List.any_eq_true] at ha
      obtain ⟨c, hcm, hce⟩ := ha
      have := h2 c hcm
      rw [List.contains_iff_mem] at this
      have e : c.2 = i := by simpa using hce
      rw [e] at this
      exact hc this
    simp [hn]

/-- the theorem applies to every generated table -/
theorem gen_string_correct (T : Table) (hT : T ∈ Fit.Gen.Str.tables) (i : Int)
    (hi : 0 ≤ i ∧ i < (2 ^ T.bits : Nat)) : specOK T i (strOf T i) = true := by
  have := gen_strings_wf
  rw [List.all_eq_true] at this
  exact string_correct T (this T hT) i hi

/-- non-vacuity: ActivityClass(127) prints "Level", ActivityClass(5) prints "ActivityClass(5)" -/
example : (strOf Fit.Gen.Str.t_ActivityClass 127).toString = "Level" ∧
    (strOf Fit.Gen.Str.t_ActivityClass 5).toString = "ActivityClass(5)" := by
  constructor <;> rfl

end Fit.Props.C20
