import FitModel.Driver

def main (args : List String) : IO Unit := Fit.Driver.main args
